import IceModel.Basic
/-
  Model of the write path's plumbing (DESIGN.md appendix B.3):
    * an arbitrary destination `io.Writer` (the *sink*): any behaviour within io.Writer's contract
    * `bufio.Writer` (Go 1.23 `Write` / `Flush`, including the large-write bypass, the short-write
      rule and the sticky error)
    * `countHashWriter` (count.go)
    * `Merger.WriteTo` (merge.go:43-60) and `Segment.WriteTo` (segment.go)
  A "write script" is the list of byte strings the code hands to its writer, in order.
-/
namespace Ice.Model.Writer

/-- answer of the sink to one `Write(p)`: bytes accepted, and whether an error came back -/
structure Ans where
  acc : Nat
  err : Bool
deriving Repr, DecidableEq

/-- A sink: its answer may depend on the number of the call, the bytes accepted so far and the
    request.  `io.Writer`'s contract: `acc ≤ len p`, and `acc < len p → err`. -/
structure Sink where
  beh : Nat → Nat → Nat → Ans      -- call index, bytes accepted so far, request length

def Sink.WellBehaved (s : Sink) : Prop :=
  ∀ i got n, (s.beh i got n).acc ≤ n ∧ ((s.beh i got n).acc < n → (s.beh i got n).err = true)

/-- what the sink has seen -/
structure SinkSt where
  got : Bytes := []
  calls : Nat := 0
  erred : Bool := false          -- some call returned an error
deriving Repr

def sinkWrite (s : Sink) (st : SinkSt) (p : Bytes) : SinkSt × Nat × Bool :=
  let a := s.beh st.calls st.got.length p.length
  ({ got := st.got ++ p.take a.acc, calls := st.calls + 1, erred := st.erred || a.err }, a.acc, a.err)

/-- `bufio.Writer` -/
structure Bufio where
  size : Nat
  buf : Bytes := []
  err : Bool := false
  sk : SinkSt := {}
deriving Repr

/-- `(*bufio.Writer).Flush` -/
def flush (s : Sink) (b : Bufio) : Bufio × Bool :=
  if b.err then (b, true)
  else if b.buf.isEmpty then (b, false)
  else
    let (sk, n, e) := sinkWrite s b.sk b.buf
    let e := e || (decide (n < b.buf.length))          -- io.ErrShortWrite
    if e then ({ b with sk := sk, buf := b.buf.drop n, err := true }, true)
    else ({ b with sk := sk, buf := [] }, false)

/-- the loop of `(*bufio.Writer).Write`; `fuel` bounds the iterations (each one consumes input or
    sets the error) -/
def writeLoop (s : Sink) : Nat → Bufio → Bytes → Nat → Bufio × Bytes × Nat
  | 0, b, p, nn => (b, p, nn)
  | fuel + 1, b, p, nn =>
    if p.length > b.size - b.buf.length && !b.err then
      if b.buf.isEmpty then
        -- large write, empty buffer: straight to the sink
        let (sk, n, e) := sinkWrite s b.sk p
        writeLoop s fuel { b with sk := sk, err := e } (p.drop n) (nn + n)
      else
        let n := min (b.size - b.buf.length) p.length
        let b1 := { b with buf := b.buf ++ p.take n }
        let (b2, _) := flush s b1
        writeLoop s fuel b2 (p.drop n) (nn + n)
    else (b, p, nn)

/-- `(*bufio.Writer).Write`: bytes consumed and error -/
def bwrite (s : Sink) (b : Bufio) (p : Bytes) : Bufio × Nat × Bool :=
  let (b, p', nn) := writeLoop s (p.length + 2) b p 0
  if b.err then (b, nn, true)
  else ({ b with buf := b.buf ++ p' }, nn + p'.length, false)

/-- CRC-32 as an abstract update function with the law ice relies on -/
structure CRC where
  upd : Nat → Bytes → Nat
  upd_append : ∀ c a b, upd (upd c a) b = upd c (a ++ b)

/-- `countHashWriter` -/
structure CHW where
  crc : Nat := 0
  n : Nat := 0
deriving Repr, DecidableEq

def CHW.note (h : CRC) (c : CHW) (p : Bytes) (accepted : Nat) : CHW :=
  { crc := h.upd c.crc (p.take accepted), n := c.n + accepted }

/-- outcome of a `WriteTo` -/
inductive Outcome where
  | ok (n : Nat)
  | error
deriving Repr, DecidableEq

/-- `merge(...)` as seen by its writer: the script `W` goes through countHashWriter into the bufio
    writer; `honour i` says whether the code looks at the error of write `i` (true for every site
    in the pinned tree; the theorem does not need it).  Returns the state after the script and
    whether the merge itself reported an error. -/
def mergeWrites (s : Sink) (h : CRC) (honour : Nat → Bool) :
    List Bytes → Nat → Bufio → CHW → Bufio × CHW × Bool
  | [], _, b, c => (b, c, false)
  | p :: W, i, b, c =>
    let (b', n, e) := bwrite s b p
    let c' := c.note h p n
    if e && honour i then (b', c', true) else mergeWrites s h honour W (i + 1) b' c'

/-- `Merger.WriteTo`: `bufio.NewWriterSize(w, size)`; merge; on error return it; `Flush` -/
def mergerWriteTo (s : Sink) (h : CRC) (honour : Nat → Bool) (size : Nat) (W : List Bytes) :
    Outcome × SinkSt :=
  let b0 : Bufio := { size := size }
  let (b, c, e) := mergeWrites s h honour W 0 b0 {}
  if e then (.error, b.sk)
  else
    let (b', fe) := flush s b
    if fe then (.error, b'.sk) else (.ok c.n, b'.sk)

/-- big-endian encoding in `k` bytes -/
def be : Nat → Nat → Bytes
  | 0, _ => []
  | k + 1, x => (x / 256 ^ k) % 256 :: be k x

/-- big-endian decoding -/
def unbe (bs : Bytes) : Nat := bs.foldl (fun acc b => acc * 256 + b) 0

structure Footer where
  numDocs : Nat
  storedIndexOffset : Nat
  fieldsIndexOffset : Nat
  docValueOffset : Nat
  chunkMode : Nat
  version : Nat
  crc : Nat
deriving Repr, DecidableEq

/-- the bytes `persistFooter` hands to its writer before the checksum -/
def footerFields (f : Footer) : Bytes :=
  be 8 f.numDocs ++ be 8 f.storedIndexOffset ++ be 8 f.fieldsIndexOffset ++ be 8 f.docValueOffset ++
  be 4 f.chunkMode ++ be 4 f.version

/-- `persistFooter`: a fresh countHashWriter seeded with `footer.crc`, the six fields, then the
    running checksum -/
def persistFooter (h : CRC) (f : Footer) : Bytes :=
  footerFields f ++ be 4 (h.upd f.crc (footerFields f))

/-- `parseFooter` on the whole file: reads backwards from the end; `none` = error -/
def parseFooter (file : Bytes) : Option Footer :=
  if file.length < 44 then none
  else
    let ft := file.drop (file.length - 44)
    let f : Footer :=
      { numDocs := unbe (ft.take 8),
        storedIndexOffset := unbe ((ft.drop 8).take 8),
        fieldsIndexOffset := unbe ((ft.drop 16).take 8),
        docValueOffset := unbe ((ft.drop 24).take 8),
        chunkMode := unbe ((ft.drop 32).take 4),
        version := unbe ((ft.drop 36).take 4),
        crc := unbe ((ft.drop 40).take 4) }
    if f.version != 2 then none else some f

/-- `Segment.WriteTo` (after the C11 fix): the data section goes straight to the sink through a
    countHashWriter (error checked), the footer - seeded with the checksum of what was just
    written - through a 4096-byte bufio writer, then `Flush`. -/
def segmentWriteTo (s : Sink) (h : CRC) (data : Bytes) (f : Footer) : Outcome × SinkSt :=
  let (sk, n, e) := sinkWrite s {} data
  let c : CHW := ({} : CHW).note h data n
  if e then (.error, sk)
  else
    let b0 : Bufio := { size := 4096, sk := sk }
    let (b, _, e1) := bwrite s b0 (persistFooter h { f with crc := c.crc })
    if e1 then (.error, b.sk)
    else
      let (b', fe) := flush s b
      if fe then (.error, b'.sk) else (.ok (n + 44), b'.sk)

end Ice.Model.Writer
