import IceModel.Basic
/-
  Model of the varint code paths of ice:
    * `binary.PutUvarint`                       (writers: intcoder.go, write.go, documentcoder.go …)
    * `memUvarintReader.ReadUvarint/SkipUvarint` (memuvarint.go; the reader of chunk streams)
    * `binary.Uvarint` on a fixed window         (readers of offsets and lengths)
    * `numUvarintBytes`                          (write.go)
  Go's uint64 arithmetic is rendered on `Nat` with explicit wrap-around.  In the readers `x | b<<s`
  is rendered as `+`: the accumulated value is always `< 2^s`, so the operands have disjoint bits.
-/
namespace Ice.Model

/-- outcome of a Go operation that may return an error or panic (index out of range, nil …) -/
inductive Res (α : Type) where
  | ok (a : α)
  | err
  | panic
deriving Repr, DecidableEq

def two64 : Nat := 2 ^ 64

/-- `binary.PutUvarint`: little-endian base-128, continuation bit 0x80 -/
def putUvarint (x : Nat) : Bytes :=
  if x < 128 then [x] else (x % 128 + 128) :: putUvarint (x / 128)
decreasing_by omega

/-- `numUvarintBytes` (write.go) -/
def numUvarintBytes (x : Nat) : Nat :=
  if x < 128 then 1 else numUvarintBytes (x / 128) + 1
decreasing_by omega

/-- `memUvarintReader.ReadUvarint` started on the bytes `S` (cursor at their start), with
    accumulator `x`, shift `s`; returns the value and the number of bytes consumed -/
def readUvarintAux : Bytes → Nat → Nat → Nat → Res (Nat × Nat)
  | [], _, _, _ => .panic                          -- S[C]: index out of range
  | b :: rest, x, s, n =>
    if b < 128 then
      if s ≥ 63 ∧ (s > 63 ∨ (s = 63 ∧ b > 1)) then .err
      else .ok (x + (b * 2 ^ s) % two64, n + 1)
    else readUvarintAux rest (x + ((b % 128) * 2 ^ s) % two64) (s + 7) (n + 1)

def readUvarint (S : Bytes) : Res (Nat × Nat) := readUvarintAux S 0 0 0

/-- `memUvarintReader.SkipUvarint`: number of bytes stepped over, or panic at the end of `S` -/
def skipUvarint : Bytes → Res Nat
  | [] => .panic
  | b :: rest => if b < 128 then .ok 1 else
    match skipUvarint rest with
    | .ok n => .ok (n + 1)
    | r => r

/-- `binary.Uvarint(buf)`: value and bytes read; `n = 0` buffer too small, `n < 0` overflow.
    Modelled result: `none` for either failure (ice treats both as corruption). -/
def uvarintAux : Bytes → Nat → Nat → Nat → Option (Nat × Nat)
  | [], _, _, _ => none
  | b :: rest, x, s, i =>
    if i = 10 then none
    else if b < 128 then
      if i = 9 ∧ b > 1 then none else some (x + (b * 2 ^ s) % two64, i + 1)
    else uvarintAux rest (x + ((b % 128) * 2 ^ s) % two64) (s + 7) (i + 1)

def uvarint (buf : Bytes) : Option (Nat × Nat) := uvarintAux buf 0 0 0

end Ice.Model
