import IceModel.Model.Iter
/-
  The "1-hit" path of `PostingsIterator` (posting.go:173-183, 366-368, 522-534): a postings list
  encoded in its FST value - one document, frequency 1, no locations, the norm in 31 bits.
-/
namespace Ice.Model.Iter1Hit
open Ice Ice.Spec Ice.Model.Iter

structure It where
  doc : Nat
  norm : Nat
  finished : Bool          -- i.docNum1Hit == docNum1HitFinished
  fl : RFlags
deriving Repr, DecidableEq

/-- `PostingsList.iterator` for a 1-hit list -/
def mk (doc norm : Nat) (E : Option (List Nat)) (fl : RFlags) : It :=
  { doc := doc, norm := norm, fl := fl,
    finished := match E with
      | none => false
      | some e => e.contains doc }

/-- `nextAtOrAfter` on the 1-hit path -/
def step (i : It) (op : IterOp) : Option Posting × It :=
  let d := match op with
    | .next => 0
    | .advance d => d
  if i.finished then (none, i)
  else if i.doc < d then (none, { i with finished := true })
  else (some { doc := i.doc, freq := if i.fl.incFN then 1 else 0,
               norm := if i.fl.incFN then i.norm else 0, locs := [] },
        { i with finished := true })

def run : It → List IterOp → List (Option (Option Posting))
  | _, [] => []
  | i, op :: ops => let (r, i') := step i op; some r :: run i' ops

/-- the posting a 1-hit value stands for -/
def posting (doc norm : Nat) : Posting := { doc := doc, freq := 1, norm := norm, locs := [] }

end Ice.Model.Iter1Hit
