import IceModel.Model.Varint
/-
  Bit-level helpers of posting.go / chunk.go, written arithmetically on `Nat`
  (the generated, operator-by-operator renderings are in `IceModel/Gen/Funcs.lean`; the bridge
  `IceModel/Bridge/Funcs.lean` proves them equal to these).
-/
namespace Ice.Model

def mask31 : Nat := 2 ^ 31 - 1

/-- `fSTValEncode1Hit`: tag `10`, 31 bits of norm, 31 bits of document number -/
def encode1Hit (docNum normBits : Nat) : Nat :=
  2 ^ 63 + (normBits % 2 ^ 31) * 2 ^ 31 + docNum % 2 ^ 31

/-- `fSTValDecode1Hit` -/
def decode1Hit (v : Nat) : Nat × Nat := (v % 2 ^ 31, (v / 2 ^ 31) % 2 ^ 31)

/-- `v & fSTValEncodingMask == fSTValEncoding1Hit`: the two top bits are `10` -/
def is1Hit (v : Nat) : Bool := (v % two64) / 2 ^ 62 == 2

/-- `under32Bits` -/
def under32Bits (x : Nat) : Bool := x ≤ mask31

/-- `encodeFreqHasLocs` on uint64 -/
def encodeFreqHasLocs (freq : Nat) (hasLocs : Bool) : Nat :=
  (freq * 2) % two64 + (if hasLocs then 1 else 0)

/-- `decodeFreqHasLocs` -/
def decodeFreqHasLocs (v : Nat) : Nat × Bool := (v / 2, v % 2 != 0)

/-- `getChunkSize` (chunk.go) -/
def getChunkSize (chunkMode cardinality maxDocs : Nat) : Res Nat :=
  if chunkMode ≤ 1024 then .ok chunkMode
  else if chunkMode = 1025 then .ok (maxDocs / (cardinality / 1024 + 1))
  else .err

end Ice.Model
