import IceModel.Spec.Seg
import IceModel.Model.Bits
/-
  Model of the merge loop of one field: enumerator.go (whole file) and merge.go
  `persistMergedRestField` / `prepareNewTerm` / `finishTerm` / `setupActiveForField` /
  `mergeTermFreqNormLocs`, on the level of dictionary entries and postings entries.

  Abstractions (the byte encodings behind them are proved elsewhere):
    * a vellum FST is its ascending list of (key, value) pairs; `VIter` reproduces what
      `FSTIterator.Current/Next` (vellum v1.0.7 fst_iterator.go:167-284) show to a caller, including
      the two quirks the enumerator is written around: a *fresh* iterator standing on the empty key
      returns the NIL slice with a non-zero value, and a *drained* iterator over an FST that
      contains the empty key keeps returning (empty key, value of the empty key), not (nil, 0).
    * a `[]byte` that may be nil is an `Option Bytes` (`none` = nil).
    * the FST value of a term is abstracted to 1 + the index of the dictionary entry, and
      `postingsListFromOffset` is the lookup of that entry (what the loop needs: the value is not
      0 and the lookup returns the postings of the term).
    * roaring bitmaps are ascending duplicate-free lists of naturals; `Add(uint32(x))` keeps the
      truncation.
    * the content of `tfEncoder`/`locEncoder` of the current term is the list of entries added.
  Go panics (index out of range, division by zero) and returned errors are values of `MergeErr`.
-/
namespace Ice.Model.MergeLoop
open Ice Ice.Spec

inductive MergeErr where
  | index          -- index out of range (Go panic)
  | fuel           -- model artefact: loop fuel exhausted (proved unreachable)
  | droppedDoc     -- merge.go:571 "see hit with dropped docNum"
  | badOffset      -- `postingsListFromOffset` failed
  | chunkMode      -- `getChunkSize`: unknown chunk mode
  | divZero        -- `SetChunkSize`: maxDocNum / 0 (Go panic)
  | outOfOrder     -- vellum.ErrOutOfOrder from `Builder.Insert`
deriving DecidableEq, Repr

instance {ε α : Type} [DecidableEq ε] [DecidableEq α] : DecidableEq (Except ε α) := fun a b =>
  match a, b with
  | .ok x, .ok y => if h : x = y then isTrue (by rw [h]) else isFalse (fun e => h (by cases e; rfl))
  | .error x, .error y =>
    if h : x = y then isTrue (by rw [h]) else isFalse (fun e => h (by cases e; rfl))
  | .ok _, .error _ => isFalse (fun e => by cases e)
  | .error _, .ok _ => isFalse (fun e => by cases e)

/-! ### keys that may be nil -/

/-- a Go `[]byte`: `none` is the nil slice -/
abbrev Key := Option Bytes

def Key.bytes : Key → Bytes
  | none => []
  | some b => b

/-- `bytes.Equal`: nil and empty are equal -/
def Key.eq (a b : Key) : Bool := a.bytes == b.bytes

/-! ### vellum iterators -/

/-- what a caller can observe of a `vellum.FSTIterator` -/
structure VIter where
  rest : List (Bytes × Nat)   -- the pair the iterator stands on, and the pairs still to come
  root : Option Nat           -- the root state is final: the FST holds the empty key, with this value
  touched : Bool              -- `keysStack` is not the nil slice (a byte has been pushed once)
deriving DecidableEq, Repr

/-- `fst.Iterator(nil, nil)` over the FST with entries `l` (for `l = []` vellum returns no iterator
    at all, see `setupActive`; the value below is what the enumerator would see of one) -/
def VIter.fresh (l : List (Bytes × Nat)) : VIter :=
  { rest := l,
    root := match l with
      | ([], v) :: _ => some v
      | _ => none,
    touched := match l with
      | (_ :: _, _) :: _ => true
      | _ => false }

/-- `FSTIterator.Current` (fst_iterator.go:167-178) -/
def VIter.current (it : VIter) : Key × Nat :=
  match it.rest with
  | (k, v) :: _ => (if k.isEmpty && !it.touched then none else some k, v)
  | [] =>
    match it.root with
    | some v => (if it.touched then some [] else none, v)   -- stack popped back to a final root
    | none => (none, 0)

/-- `FSTIterator.Next`; the flag is `ErrIteratorDone` -/
def VIter.next (it : VIter) : VIter × Bool :=
  ({ it with rest := it.rest.tail, touched := it.touched || !it.rest.tail.isEmpty },
   it.rest.tail.isEmpty)

/-! ### enumerator.go -/

/-- `enumerator`; the parallel slices `currKs`/`currVs` (both `make(…, len(itrs))`,
    enumerator.go:42-43) are one list of pairs -/
structure Enum where
  itrs : List VIter
  curr : List (Key × Nat)
  lowK : Key
  lowIdxs : List Nat
  lowCurr : Nat
deriving DecidableEq, Repr

/-- one round of the loop of `updateMatches` (enumerator.go:62-76) -/
def umStep (skipEmptyKey : Bool) (st : Key × List Nat) (i : Nat) (key : Key) (v : Nat) :
    Key × List Nat :=
  if (key.isNone && v == 0) || (key.bytes.length == 0 && skipEmptyKey) then st
  else
    let c := Bytes.cmp key.bytes st.1.bytes
    if c == .lt || st.2.length == 0 then (key, [i])
    else if c == .eq then (st.1, st.2 ++ [i])
    else st

def umLoop (skipEmptyKey : Bool) : List (Key × Nat) → Nat → Key × List Nat → Key × List Nat
  | [], _, st => st
  | (key, v) :: r, i, st => umLoop skipEmptyKey r (i + 1) (umStep skipEmptyKey st i key v)

/-- `updateMatches` (enumerator.go:57-78) -/
def Enum.updateMatches (skipEmptyKey : Bool) (m : Enum) : Enum :=
  let r := umLoop skipEmptyKey m.curr 0 (none, [])
  { m with lowK := r.1, lowIdxs := r.2, lowCurr := 0 }

/-- `m.lowK == nil && len(m.lowIdxs) == 0` -/
def Enum.isDone (m : Enum) : Bool := m.lowK.isNone && m.lowIdxs.length == 0

/-- `newEnumerator` (enumerator.go:39-54); the flag is `ErrIteratorDone` -/
def Enum.new (itrs : List VIter) : Enum × Bool :=
  let m := Enum.updateMatches false
    { itrs := itrs, curr := itrs.map VIter.current, lowK := none, lowIdxs := [], lowCurr := 0 }
  (m, m.isDone)

/-- `Current` (enumerator.go:83-89) -/
def Enum.current (m : Enum) : Except MergeErr (Key × Nat × Nat) :=
  if m.lowCurr < m.lowIdxs.length then
    match m.lowIdxs[m.lowCurr]? with
    | none => .error .index
    | some index =>
      match m.curr[index]? with
      | none => .error .index
      | some kv => .ok (m.lowK, index, kv.2)
  else .ok (m.lowK, 0, 0)

/-- `GetLowIdxsAndValues` (enumerator.go:95-101), as a list of (index, value) pairs -/
def lowsLoop (curr : List (Key × Nat)) : List Nat → Except MergeErr (List (Nat × Nat))
  | [] => .ok []
  | idx :: r =>
    match curr[idx]? with
    | none => .error .index
    | some kv =>
      match lowsLoop curr r with
      | .error e => .error e
      | .ok l => .ok ((idx, kv.2) :: l)

def Enum.lows (m : Enum) : Except MergeErr (List (Nat × Nat)) := lowsLoop m.curr m.lowIdxs

/-- the loop `for _, vi := range m.lowIdxs` of `Next` (enumerator.go:109-115); errors of the
    vellum iterator other than `ErrIteratorDone` (corrupt FST bytes) are outside the model -/
def Enum.advance (m : Enum) : List Nat → Except MergeErr Enum
  | [] => .ok m
  | vi :: r =>
    match m.itrs[vi]? with
    | none => .error .index
    | some it =>
      let it' := it.next.1
      if vi < m.curr.length then
        Enum.advance { m with itrs := m.itrs.set vi it', curr := m.curr.set vi it'.current } r
      else .error .index

/-- `Next` (enumerator.go:105-123); the flag is `ErrIteratorDone` -/
def Enum.next (m : Enum) : Except MergeErr (Enum × Bool) :=
  let m1 := { m with lowCurr := m.lowCurr + 1 }
  if m1.lowCurr ≥ m1.lowIdxs.length then
    match m1.advance m1.lowIdxs with
    | .error e => .error e
    | .ok m2 =>
      let m3 := m2.updateMatches true
      .ok (m3, m3.isDone)
  else .ok (m1, m1.isDone)

/-- the shape of every use of an enumerator:
    `for err == nil { k, i, v := e.Current(); body; err = e.Next() }`.
    The body may call `GetLowIdxsAndValues` (it does not change the enumerator), so it receives
    that call's result as a value. -/
def Enum.loop {σ : Type} (body : σ → Key × Nat × Nat → Except MergeErr (List (Nat × Nat)) →
    Except MergeErr σ) : Nat → Enum → σ → Except MergeErr σ
  | 0, _, _ => .error .fuel
  | fuel + 1, m, s =>
    match m.current with
    | .error e => .error e
    | .ok c =>
      match body s c m.lows with
      | .error e => .error e
      | .ok s' =>
        match m.next with
        | .error e => .error e
        | .ok (m', done) => if done then .ok s' else Enum.loop body fuel m' s'

/-- fuel that suffices: one round per (key, iterator) pair -/
def fuelFor (itrs : List VIter) : Nat := (itrs.map (fun it => it.rest.length)).sum

/-- everything the enumerator delivers until `ErrIteratorDone`:
    `(key, iteratorIndex, value)` and the low (index, value) pairs at that moment -/
def collectBody (acc : List ((Key × Nat × Nat) × List (Nat × Nat))) (c : Key × Nat × Nat)
    (lw : Except MergeErr (List (Nat × Nat))) :
    Except MergeErr (List ((Key × Nat × Nat) × List (Nat × Nat))) :=
  match lw with
  | .error e => .error e
  | .ok l => .ok (acc ++ [(c, l)])

def enumerateFull (itrs : List VIter) :
    Except MergeErr (List ((Key × Nat × Nat) × List (Nat × Nat))) :=
  let (m, done) := Enum.new itrs
  if done then .ok []
  else Enum.loop collectBody (fuelFor itrs) m []

def enumerate (itrs : List VIter) : Except MergeErr (List (Key × Nat × Nat)) :=
  (enumerateFull itrs).map (fun l => l.map (·.1))

/-! ### bitmaps -/

/-- `roaring.Bitmap.Add` on an ascending duplicate-free list -/
def bmAdd (x : Nat) : List Nat → List Nat
  | [] => [x]
  | y :: r => if x < y then x :: y :: r else if x = y then y :: r else y :: bmAdd x r

def u32 (x : Nat) : Nat := x % 2 ^ 32

/-! ### the inputs of one field -/

/-- one input segment as `persistMergedRestField` sees it for the field at hand -/
structure SegIn where
  /-- `seg.dictionary(field)`: `none` when the dictionary or its FST is nil; otherwise the FST
      with, per term, the postings (ascending by document) its value leads to -/
  dict : Option (List (Bytes × List Posting))
  drops : Option (List Nat)            -- `dropsIn[segmentI]`; `none` = nil bitmap
  newDocNums : List (Option Nat)       -- `newDocNumsIn[segmentI]`; `none` = `docDropped`
deriving DecidableEq, Repr

/-- an entry of the parallel slices `newDocNums, drops, dicts, itrs` built by
    `setupActiveForField` -/
structure Active where
  dict : List (Bytes × List Posting)
  drops : Option (List Nat)
  newDocNums : List (Option Nat)
deriving DecidableEq, Repr

/-- `setupActiveForField` (merge.go:525-559): segments without FST, or whose FST has no key
    (`fst.Iterator` returns a nil iterator with `ErrIteratorDone`), do not take part; an empty
    deletion bitmap is replaced by nil -/
def setupActive (segs : List SegIn) : List Active :=
  segs.filterMap (fun s =>
    match s.dict with
    | none => none
    | some d =>
      if d.isEmpty then none
      else some { dict := d,
                  drops := match s.drops with
                    | some (x :: r) => some (x :: r)
                    | _ => none,
                  newDocNums := s.newDocNums })

/-- the (key, value) pairs of the FST: value = 1 + index of the entry -/
def fstEntries (d : List (Bytes × List Posting)) : List (Bytes × Nat) :=
  d.zipIdx.map (fun p => (p.1.1, p.2 + 1))

/-- `Dictionary.postingsListFromOffset` (dict.go:73-82) -/
def postingsListFromOffset (d : List (Bytes × List Posting)) (v : Nat) :
    Except MergeErr (List Posting) :=
  if v = 0 then .error .badOffset
  else match d[v - 1]? with
    | some e => .ok e.2
    | none => .error .badOffset

def dropped (drops : Option (List Nat)) (doc : Nat) : Bool :=
  match drops with
  | none => false
  | some d => d.contains doc

/-- what `postings.iterator(true, true, true, …)` delivers: the postings outside `except`
    (posting.go:180, 211-213) -/
def iterSurvivors (drops : Option (List Nat)) (ps : List Posting) : List Posting :=
  ps.filter (fun p => !dropped drops p.doc)

/-- `PostingsList.Count` (posting.go:223-237): `n - e` -/
def plCount (drops : Option (List Nat)) (ps : List Posting) : Nat :=
  ps.length - (ps.filter (fun p => dropped drops p.doc)).length

/-! ### re-encoded postings -/

/-- a location as written: the field as an id of the merged segment -/
structure MLoc where
  fieldID : Nat
  pos : Nat
  start : Nat
  stop : Nat
deriving DecidableEq, Repr

/-- one posting as handed to `tfEncoder`/`locEncoder` -/
structure MPosting where
  doc : Nat
  freq : Nat
  norm : Nat
  locs : List MLoc
deriving DecidableEq, Repr

/-- `uint64(fieldsMap[name] - 1)` (merge.go:591, 605) with `fieldsMap = mapFields(fieldsInv)`:
    `uint16(i) + 1 - 1` for a known name, `0 - 1 = 65535` (uint16) for an unknown one -/
def fieldIdOf (fieldsInv : List Bytes) (name : Bytes) : Nat :=
  match fieldsInv.idxOf? name with
  | some i => i % 65536
  | none => 65535

def encLoc (fieldsInv : List Bytes) (l : Loc) : MLoc :=
  { fieldID := fieldIdOf fieldsInv l.field, pos := l.pos, start := l.start, stop := l.stop }

def encPosting (fieldsInv : List Bytes) (newDoc : Nat) (p : Posting) : MPosting :=
  { doc := newDoc, freq := p.freq, norm := p.norm, locs := p.locs.map (encLoc fieldsInv) }

/-- reading a location back from the merged segment (posting.go:444 `fieldsInv[fieldID]`) -/
def MLoc.read (fieldsInv : List Bytes) (l : MLoc) : Option Loc :=
  (fieldsInv[l.fieldID]?).map (fun n => { field := n, pos := l.pos, start := l.start, stop := l.stop })

def readLocs (fieldsInv : List Bytes) : List MLoc → Option (List Loc)
  | [] => some []
  | l :: r =>
    match MLoc.read fieldsInv l, readLocs fieldsInv r with
    | some a, some b => some (a :: b)
    | _, _ => none

/-- `none`: the reader would index `fieldsInv` out of range -/
def MPosting.read (fieldsInv : List Bytes) (p : MPosting) : Option Posting :=
  (readLocs fieldsInv p.locs).map
    (fun ls => { doc := p.doc, freq := p.freq, norm := p.norm, locs := ls })

/-! ### the loop state -/

/-- one `newVellum.Insert(term, value)` together with what the value leads to -/
structure DictEntry where
  term : Bytes
  entries : List MPosting    -- the postings handed to the encoders for this term, in order
  bitmap : List Nat          -- `newRoaring` when the term was finished
  oneHit : Option Nat        -- `some v`: the FST value is the 1-hit code `v`
  card : Nat                 -- cardinality computed by `prepareNewTerm`
  chunkSize : Nat
deriving DecidableEq, Repr

structure St where
  prevTerm : Key := none
  roaring : List Nat := []           -- newRoaring
  entries : List MPosting := []      -- content of tfEncoder (+ locEncoder) of the current term
  locData : Bool := false            -- locEncoder received data: `FinalSize() > 0` after Close
  lastDocNum : Nat := 0
  lastFreq : Nat := 0
  lastNorm : Nat := 0
  card : Nat := 0
  chunkSize : Nat := 1024            -- legacyChunkMode (merge.go:199)
  docTracking : List Nat := []       -- fieldDocTracking
  fieldFreq : Nat := 0               -- fieldFreqs[fieldID]
  out : List DictEntry := []         -- the inserts into newVellum so far
  builderLast : Bytes := []          -- vellum `Builder.last`
deriving DecidableEq, Repr

/-- parameters of one field's merge -/
structure Cfg where
  fieldsInv : List Bytes        -- merged field list (`mergeFields`)
  chunkMode : Nat
  newSegDocCount : Nat
  /-- `true`: merge.go after commit c645d07; `false`: before (`fieldFreqs += newCard` inside
      the loop of `prepareNewTerm`) -/
  sumFreqFix : Bool := true
deriving Repr

def getIdx {α} (l : List α) (i : Nat) : Except MergeErr α :=
  match l[i]? with
  | some a => .ok a
  | none => .error .index

/-- the accumulator of `mergeTermFreqNormLocs` -/
structure Acc where
  roaring : List Nat
  docTracking : List Nat
  entries : List MPosting
  locData : Bool
  lastDocNum : Nat := 0
  lastFreq : Nat := 0
  lastNorm : Nat := 0
  sumFreq : Nat := 0
deriving DecidableEq, Repr

/-- `mergeTermFreqNormLocs` (merge.go:563-625) over the postings the iterator delivers.
    `nextNorm` is the float32 bit pattern read from the input, unchanged (the detour through
    float64 is the identity on non-NaN values). -/
def mtfnl (fieldsInv : List Bytes) (newDocNums : List (Option Nat)) :
    List Posting → Acc → Except MergeErr Acc
  | [], a => .ok a
  | p :: r, a =>
    match newDocNums[p.doc]? with
    | none => .error .index
    | some none => .error .droppedDoc
    | some (some k) =>
      mtfnl fieldsInv newDocNums r
        { roaring := bmAdd (u32 k) a.roaring,
          docTracking := bmAdd (u32 k) a.docTracking,
          entries := a.entries ++ [encPosting fieldsInv k p],
          locData := a.locData || !p.locs.isEmpty,
          lastDocNum := k, lastFreq := p.freq, lastNorm := p.norm,
          sumFreq := a.sumFreq + p.freq }

/-- the loop of `prepareNewTerm` (merge.go:443-450): (newCard, what the old code added to
    `fieldFreqs`) -/
def cardLoop (active : List Active) : List (Nat × Nat) → Nat × Nat → Except MergeErr (Nat × Nat)
  | [], acc => .ok acc
  | (idx, v) :: r, (card, ff) =>
    match getIdx active idx with
    | .error e => .error e
    | .ok s =>
      match postingsListFromOffset s.dict v with
      | .error e => .error e
      | .ok ps =>
        let card' := card + plCount s.drops ps
        cardLoop active r (card', ff + card')

/-- `prepareNewTerm` (merge.go:435-461) -/
def prepareNewTerm (cfg : Cfg) (active : List Active)
    (lows : Except MergeErr (List (Nat × Nat))) (st : St) : Except MergeErr St :=
  match lows with
  | .error e => .error e
  | .ok lw =>
    match cardLoop active lw (0, 0) with
    | .error e => .error e
    | .ok (card, ff) =>
      match getChunkSize cfg.chunkMode card cfg.newSegDocCount with
      | .ok cs =>
        if cs = 0 then .error .divZero      -- SetChunkSize: maxDocNum / chunkSize
        else .ok { st with card := card, chunkSize := cs,
                           fieldFreq := if cfg.sumFreqFix then st.fieldFreq else st.fieldFreq + ff }
      | _ => .error .chunkMode

/-- the decision of the closure `use1HitEncoding` (merge.go:471-479) -/
def use1Hit (st : St) : Option Nat :=
  if st.roaring.length = 1 && !st.locData then
    match st.roaring.head? with       -- newRoaring.Minimum()
    | none => none
    | some docNum =>
      if under32Bits docNum && docNum == st.lastDocNum && st.lastFreq == 1
      then some (encode1Hit docNum st.lastNorm) else none
  else none

/-- `finishTerm` (merge.go:463-504) with `writePostings` (write.go:57-109) -/
def finishTerm (st : St) : Except MergeErr St :=
  let clear (s : St) : St :=
    { s with roaring := [], entries := [], locData := false,
             lastDocNum := 0, lastFreq := 0, lastNorm := 0 }
  if st.roaring.length = 0 then .ok (clear st)     -- postingsOffset == 0: nothing inserted
  else
    -- Builder.Insert (vellum builder.go:91-112)
    if Bytes.cmp st.prevTerm.bytes st.builderLast == .lt then .error .outOfOrder
    else
      .ok (clear { st with
        out := st.out ++ [{ term := st.prevTerm.bytes, entries := st.entries, bitmap := st.roaring,
                            oneHit := use1Hit st, card := st.card, chunkSize := st.chunkSize }],
        builderLast := if st.prevTerm.bytes.isEmpty then st.builderLast else st.prevTerm.bytes })

/-- the body of the `for err == nil` loop (merge.go:267-320) -/
def body (cfg : Cfg) (active : List Active) (st : St) (c : Key × Nat × Nat)
    (lows : Except MergeErr (List (Nat × Nat))) : Except MergeErr St :=
  let term := c.1
  let itrI := c.2.1
  let postingsOffset := c.2.2
  match (if !(Key.eq st.prevTerm term) then finishTerm st else .ok st) with
  | .error e => .error e
  | .ok st =>
    match (if !(Key.eq st.prevTerm term) || st.prevTerm.isNone
           then prepareNewTerm cfg active lows st else .ok st) with
    | .error e => .error e
    | .ok st =>
      match getIdx active itrI with
      | .error e => .error e
      | .ok s =>
        match postingsListFromOffset s.dict postingsOffset with
        | .error e => .error e
        | .ok ps =>
          match mtfnl cfg.fieldsInv s.newDocNums (iterSurvivors s.drops ps)
              { roaring := st.roaring, docTracking := st.docTracking, entries := st.entries,
                locData := st.locData } with
          | .error e => .error e
          | .ok a =>
            .ok { st with
              roaring := a.roaring, docTracking := a.docTracking, entries := a.entries,
              locData := a.locData, lastDocNum := a.lastDocNum, lastFreq := a.lastFreq,
              lastNorm := a.lastNorm,
              fieldFreq := if cfg.sumFreqFix then st.fieldFreq + a.sumFreq else st.fieldFreq,
              -- prevTerm = append(prevTerm[:0], term...): stays nil iff it was nil and term is empty
              prevTerm := if st.prevTerm.isNone && term.bytes.isEmpty then none
                          else some term.bytes }

/-- the result of one field -/
structure FieldResult where
  dict : List DictEntry     -- the merged FST with what each value leads to
  fieldDocs : Nat           -- `fieldDocTracking.GetCardinality()` (merge.go:230)
  fieldFreq : Nat           -- `fieldFreqs[fieldID]`
deriving DecidableEq, Repr

/-- `persistMergedRestField` for one field (merge.go:241-342, without the doc values), followed
    by the `fieldDocs` update of `persistMergedRest` (merge.go:230) -/
def mergeField (cfg : Cfg) (segs : List SegIn) : Except MergeErr FieldResult :=
  let active := setupActive segs
  let itrs := active.map (fun s => VIter.fresh (fstEntries s.dict))
  let (e, done) := Enum.new itrs
  match (if done then .ok {} else e.loop (body cfg active) (fuelFor itrs) {}) with
  | .error err => .error err
  | .ok st =>
    match finishTerm st with
    | .error err => .error err
    | .ok st => .ok { dict := st.out, fieldDocs := st.docTracking.length, fieldFreq := st.fieldFreq }

/-! ### examples (the model is executable; all checked by the kernel) -/

section Examples

private def P (d f n : Nat) : Posting := { doc := d, freq := f, norm := n, locs := [] }

/-- segment 0: documents 0,1; the empty term in 0, "a" in 0 and 1; document 1 deleted -/
private def exS0 : SegIn :=
  { dict := some [([], [P 0 1 7]), ([97], [P 0 2 7, P 1 1 8])], drops := some [1],
    newDocNums := [some 0, none] }
/-- segment 1: one document with the empty term and "b", no deletion (nil bitmap) -/
private def exS1 : SegIn :=
  { dict := some [([], [P 0 3 9]), ([98], [P 0 1 9])], drops := none, newDocNums := [some 1] }
/-- segment 2: documents 0,1; "a" in 1, "c" in 0 only; document 0 deleted: "c" vanishes -/
private def exS2 : SegIn :=
  { dict := some [([97], [P 1 1 5]), ([99], [P 0 1 4])], drops := some [0],
    newDocNums := [none, some 2] }
private def exCfg : Cfg := { fieldsInv := [idField, [102]], chunkMode := 1025, newSegDocCount := 3 }

/-- the enumerator delivers the empty key (as the nil slice) once per segment holding it -/
example : enumerate ((setupActive [exS0, exS1, exS2]).map (fun s => VIter.fresh (fstEntries s.dict)))
    = .ok [(none, 0, 1), (none, 1, 1), (some [97], 0, 2), (some [97], 2, 1), (some [98], 1, 2),
           (some [99], 2, 2)] := by decide

/-- three segments, the empty term in two of them, a deletion, a term ("c") all of whose
    documents are deleted: it is not inserted -/
example : mergeField exCfg [exS0, exS1, exS2] = .ok
    { dict := [{ term := [], entries := [⟨0, 1, 7, []⟩, ⟨1, 3, 9, []⟩], bitmap := [0, 1],
                 oneHit := none, card := 2, chunkSize := 3 },
               { term := [97], entries := [⟨0, 2, 7, []⟩, ⟨2, 1, 5, []⟩], bitmap := [0, 2],
                 oneHit := none, card := 2, chunkSize := 3 },
               { term := [98], entries := [⟨1, 1, 9, []⟩], bitmap := [1],
                 oneHit := some (encode1Hit 1 9), card := 1, chunkSize := 3 }],
      fieldDocs := 3, fieldFreq := 8 } := by decide

/-- the accumulation before commit c645d07 on the same input: 10 instead of 8 -/
example : (mergeField { exCfg with sumFreqFix := false } [exS0, exS1, exS2]).toOption.map (·.fieldFreq)
    = some 10 := by decide

/-- a posting whose document is marked dropped in `newDocNums` but not in the deletion bitmap
    (outside the contract) is the error of merge.go:571 -/
example : mergeField exCfg [{ exS1 with newDocNums := [none] }] = .error .droppedDoc := by decide

/-- a segment without dictionary for the field, and one whose FST is empty, do not take part -/
example : setupActive [{ dict := none, drops := none, newDocNums := [] },
                       { dict := some [], drops := some [], newDocNums := [] }, exS1]
    = [{ dict := [([], [P 0 3 9]), ([98], [P 0 1 9])], drops := none, newDocNums := [some 1] }] := by
  decide

end Examples

end Ice.Model.MergeLoop
