import IceModel.Basic
/-
  Reader-side caches filled from a failing storage (property C19, the part not covered by the mutex
  protocol of `Model/Conc.lean`): when a load fails half-way, what state is left behind, and what do
  later calls on the same reader object do?

  Storage = abstract chunked content + a fault oracle.  Storage reads are numbered from 0 in call
  order (the counter `clk` is threaded through every function); read k fails iff `o k = true`.
  `failFrom f` is the oracle of the property's quantifier (storage STARTS failing at read f and
  fails from then on); an arbitrary `Nat → Bool` models transient faults.

  Three machines, each following the event order pinned in `Bridge/Events.lean`:
   (a) `Dec`      = `chunkedIntDecoder` (intdecoder.go) with its `memUvarintReader`
   (b) `PIter`    = chunk cache of `PostingsIterator` (posting.go): `currChunk`, freq/norm decoder,
                    location decoder, guard `currChunk != n || freqNormReader.isNil()`
   (c) `DvReader` = `docValueReader` (docvalues.go): `curChunkNum`, header (backing array + length,
                    overwritten progressively), compressed data, decompressed copy
  `Segment.getDocStoredOffsets` (read.go) has no cache after fix f904785 (`Bridge.getDocStoredOffsets_no_cache`).

  Outcomes: `ok answer`, `error`, `panic` (nil reader, index out of range, slice bounds out of range).
-/
namespace Ice.Model.CacheFault

abbrev Oracle := Nat → Bool

/-- the oracle of the property: every read from number `f` on fails -/
def failFrom (f : Nat) : Oracle := fun k => decide (f ≤ k)

/-- no fault at all -/
def healthy : Oracle := fun _ => false

inductive Outcome (α : Type) where
  | ok (a : α)
  | error
  | panic
deriving DecidableEq, Repr

/-- faulty outcome `x` against healthy outcome `y`: the same, or an error -/
def SameOrError {α : Type} (x y : Outcome α) : Prop := x = y ∨ x = .error

instance {α : Type} [DecidableEq α] (x y : Outcome α) : Decidable (SameOrError x y) := by
  unfold SameOrError; infer_instance

/-- pointwise relation of two lists of the same length (core Lean has no `List.Forall₂`) -/
inductive Pointwise {α β : Type} (R : α → β → Prop) : List α → List β → Prop
  | nil : Pointwise R [] []
  | cons {a b as bs} : R a b → Pointwise R as bs → Pointwise R (a :: as) (b :: bs)

theorem Pointwise.length_eq {α β : Type} {R : α → β → Prop} {as : List α} {bs : List β}
    (h : Pointwise R as bs) : as.length = bs.length := by
  induction h with
  | nil => rfl
  | cons _ _ ih => simp [ih]

theorem Pointwise.get {α β : Type} {R : α → β → Prop} {as : List α} {bs : List β}
    (h : Pointwise R as bs) : ∀ (i : Nat) (h1 : i < as.length) (h2 : i < bs.length), R as[i] bs[i] := by
  induction h with
  | nil => intro i h1; simp at h1
  | cons hab _ ih =>
    intro i h1 h2
    cases i with
    | zero => simpa using hab
    | succ i => simpa using ih i (by simpa using h1) (by simpa using h2)

/-- chunked content of one stream: `none` = no such chunk (index beyond `chunkOffsets`) -/
abbrev Store (α : Type) := Nat → Option (List α)

/-! ### (a) chunkedIntDecoder -/

/-- `chunkedIntDecoder`; one item = what one posting consumes from the stream -/
structure Dec (α : Type) where
  encoded : Bool := true                  -- startOffset != termNotEncoded
  bytes : Option (List α) := none         -- curChunkBytes (none = nil)
  uncompressed : List α := []             -- temp buffer for decompression
  rdr : Option (List α × Nat) := none     -- r: (S, C); none = nil pointer
deriving DecidableEq, Repr

/-- `isNil`: `curChunkBytes == nil || len(curChunkBytes) == 0` -/
def Dec.isNil (d : Dec α) : Bool :=
  match d.bytes with
  | none => true
  | some l => l.isEmpty

/-- `loadChunk`; events (Bridge.events_decoderLoadChunk):
    `{ A:r R:nil } { F:Errorf R:err } F:Read { R:err } F:ZSTDDecompress A:uncompressed { R:err }
     A:curChunkBytes { A:r } { M:r.Reset } R:nil`.
    Decompression of what a successful read delivered succeeds (a storage fault is a failing
    `Read`; corrupt content is outside C19).  Result: new state, new read counter, success. -/
def Dec.loadChunk (st : Store α) (o : Oracle) (clk : Nat) (d : Dec α) (n : Nat) : Dec α × Nat × Bool :=
  if !d.encoded then ({ d with rdr := some ([], 0) }, clk, true)
  else match st n with
    | none => (d, clk, false)
    | some c =>
      if o clk then (d, clk + 1, false)
      else
        let d := { d with uncompressed := c }
        let d := { d with bytes := some d.uncompressed }
        let d := { d with rdr := some (c, 0) }
        (d, clk + 1, true)

/-- one item off the reader (`readUvarint`s of one posting): nil reader or exhausted slice = panic -/
def Dec.read (d : Dec α) : Dec α × Outcome α :=
  match d.rdr with
  | none => (d, .panic)
  | some (s, c) =>
    match s[c]? with
    | some a => ({ d with rdr := some (s, c + 1) }, .ok a)
    | none => (d, .panic)

/-- `reset()` (iterator reuse): `curChunkBytes[:0]`, `r.Reset(nil)` -/
def Dec.reset (d : Dec α) : Dec α :=
  { d with bytes := d.bytes.map (fun _ => []), uncompressed := [],
           rdr := d.rdr.map (fun _ => ([], 0)) }

/-- accesses to a bare decoder -/
inductive DAcc where
  | load (n : Nat)
  | read
  | isNil
deriving DecidableEq, Repr

inductive DAns (α : Type) where
  | loaded
  | item (a : α)
  | nil (b : Bool)
deriving DecidableEq, Repr

def Dec.step (st : Store α) (o : Oracle) (clk : Nat) (d : Dec α) : DAcc → Dec α × Nat × Outcome (DAns α)
  | .load n =>
    let (d', clk', ok) := d.loadChunk st o clk n
    (d', clk', if ok then .ok .loaded else .error)
  | .read =>
    match d.read with
    | (d', .ok a) => (d', clk, .ok (.item a))
    | (d', .error) => (d', clk, .error)
    | (d', .panic) => (d', clk, .panic)
  | .isNil => (d, clk, .ok (.nil d.isNil))

def Dec.run (st : Store α) (o : Oracle) : Nat → Dec α → List DAcc → List (Outcome (DAns α))
  | _, _, [] => []
  | clk, d, a :: as =>
    let (d', clk', out) := d.step st o clk a
    out :: Dec.run st o clk' d' as

/-! ### (b) PostingsIterator chunk cache -/

/-- one posting's share of the freq/norm stream: its value and the has-locations bit -/
structure FItem where
  v : Nat
  hasLocs : Bool
deriving DecidableEq, Repr

/-- versions of `PostingsIterator.loadChunk` -/
structure IVersion where
  invalidate : Bool     -- repair 0ab4d30: `freqNormReader.curChunkBytes = nil` when the location load fails
  keyFirst : Bool       -- seeded change: `i.currChunk = chunk` BEFORE the two fallible sub-loads
deriving DecidableEq, Repr

def ifixed : IVersion := { invalidate := true, keyFirst := false }
def iv0 : IVersion := { invalidate := false, keyFirst := false }
def ikeyFirst : IVersion := { invalidate := true, keyFirst := true }

structure PIter where
  currChunk : Nat := 0
  freq : Dec FItem := {}
  loc : Dec Nat := {}
  incFreq : Bool            -- includeFreqNorm
  incLocs : Bool            -- includeLocs
deriving DecidableEq, Repr

/-- the two streams of one postings list -/
structure IStore where
  f : Store FItem
  l : Store Nat

/-- `PostingsIterator.loadChunk`; events (Bridge.events_postingsLoadChunk):
    `{ F:loadChunk { R:err } } { F:loadChunk { { A:freqNormReader.curChunkBytes } R:err } } A:currChunk R:nil` -/
def PIter.loadChunk (ver : IVersion) (st : IStore) (o : Oracle) (clk : Nat) (it : PIter) (n : Nat) :
    PIter × Nat × Bool :=
  let it := if ver.keyFirst then { it with currChunk := n } else it
  let r1 : PIter × Nat × Bool :=
    if it.incFreq then
      let (f', clk', ok) := it.freq.loadChunk st.f o clk n
      ({ it with freq := f' }, clk', ok)
    else (it, clk, true)
  if !r1.2.2 then r1
  else
    let it := r1.1
    let clk := r1.2.1
    if it.incLocs then
      let (l', clk', ok) := it.loc.loadChunk st.l o clk n
      let it := { it with loc := l' }
      if !ok then
        let it := if ver.invalidate && it.incFreq then { it with freq := { it.freq with bytes := none } } else it
        (it, clk', false)
      else ({ it with currChunk := n }, clk', true)
    else ({ it with currChunk := n }, clk, true)

/-- the guard of `nextDocNumAtOrAfter`, `nextDocNumAtOrAfterClean` and `currChunkNext` -/
def PIter.guard (it : PIter) (n : Nat) : Bool := it.currChunk != n || it.freq.isNil

/-- guard, then `loadChunk` -/
def PIter.ensure (ver : IVersion) (st : IStore) (o : Oracle) (clk : Nat) (it : PIter) (n : Nat) :
    PIter × Nat × Bool :=
  if it.guard n then it.loadChunk ver st o clk n else (it, clk, true)

/-- read the entry at the readers' positions (`readFreqNormHasLocs` + the location reading of
    `nextAtOrAfter`; also what `currChunkNext` skips over) -/
def PIter.readEntry (it : PIter) : PIter × Outcome (Nat × Option Nat) :=
  match it.freq.read with
  | (_, .panic) => (it, .panic)
  | (_, .error) => (it, .error)
  | (f', .ok e) =>
    let it := { it with freq := f' }
    if it.incLocs && e.hasLocs then
      match it.loc.read with
      | (_, .panic) => (it, .panic)
      | (_, .error) => (it, .error)
      | (l', .ok x) => ({ it with loc := l' }, .ok (e.v, some x))
    else (it, .ok (e.v, none))

/-- `currChunkNext(n)` repeated `k` times (the postings skipped inside chunk `n` by this call);
    stops at the first failure -/
def PIter.skips (ver : IVersion) (st : IStore) (o : Oracle) (n : Nat) :
    Nat → Nat → PIter → PIter × Nat × Outcome Unit
  | 0, clk, it => (it, clk, .ok ())
  | k + 1, clk, it =>
    let (it1, clk1, ok) := it.ensure ver st o clk n
    if !ok then (it1, clk1, .error)
    else match it1.readEntry with
      | (it2, .ok _) => PIter.skips ver st o n k clk1 it2
      | (it2, .error) => (it2, clk1, .error)
      | (it2, .panic) => (it2, clk1, .panic)

/-- one `Next`/`Advance`: the posting delivered lies in chunk `chunk`; `skip` postings of that
    chunk are passed over inside this call (sameChunkNexts / the `all` postings that are not actual) -/
structure IAcc where
  chunk : Nat
  skip : Nat := 0
deriving DecidableEq, Repr

/-- answer: `none` when neither freq/norm nor locations are wanted (only the doc number, which
    comes from the bitmap); else the freq/norm value and, if present and wanted, the locations -/
abbrev IAns := Option (Nat × Option Nat)

def PIter.access (ver : IVersion) (st : IStore) (o : Oracle) (clk : Nat) (it : PIter) (a : IAcc) :
    PIter × Nat × Outcome IAns :=
  if !it.incFreq then (it, clk, .ok none)
  else match PIter.skips ver st o a.chunk a.skip clk it with
    | (it1, clk1, .error) => (it1, clk1, .error)
    | (it1, clk1, .panic) => (it1, clk1, .panic)
    | (it1, clk1, .ok ()) =>
      let (it2, clk2, ok) := it1.ensure ver st o clk1 a.chunk
      if !ok then (it2, clk2, .error)
      else match it2.readEntry with
        | (it3, .ok r) => (it3, clk2, .ok (some r))
        | (it3, .error) => (it3, clk2, .error)
        | (it3, .panic) => (it3, clk2, .panic)

def PIter.run (ver : IVersion) (st : IStore) (o : Oracle) : Nat → PIter → List IAcc → List (Outcome IAns)
  | _, _, [] => []
  | clk, it, a :: as =>
    let (it', clk', out) := it.access ver st o clk a
    out :: PIter.run ver st o clk' it' as

/-- the iterator (and read counter) a script leaves behind -/
def PIter.exec (ver : IVersion) (st : IStore) (o : Oracle) : Nat → PIter → List IAcc → PIter × Nat
  | clk, it, [] => (it, clk)
  | clk, it, a :: as =>
    let (it', clk', _) := it.access ver st o clk a
    PIter.exec ver st o clk' it' as

/-- a new iterator, or a reused one after `reset()`: `currChunk = 0` and no freq/norm bytes -/
def PIter.Fresh (it : PIter) : Prop := it.currChunk = 0 ∧ it.freq.isNil = true ∧ it.freq.encoded = true

def PIter.new (incFreq incLocs : Bool) (locEncoded : Bool := true) : PIter :=
  { incFreq := incFreq, incLocs := incLocs, loc := { encoded := locEncoded } }

/-- the chunks named by a script never decrease (the bitmap iterators only move forward) -/
def Monotone (as : List IAcc) : Prop := as.Pairwise (fun a b => a.chunk ≤ b.chunk)

/-! ### (c) docValueReader -/

/-- `metaData`: document number and END offset of its values in the decompressed chunk (absolute:
    the file stores deltas; `loadDvChunk` adds the running sums in locals, with no fallible step
    between the raw assignment and the `+=`, so each field changes once per fallible step) -/
structure Meta where
  doc : Nat
  off : Nat
deriving DecidableEq, Repr, Inhabited

/-- one doc-values chunk on storage: header entries and the (decompressed form of the) data -/
structure DvChunk where
  entries : List Meta
  data : List Nat
deriving DecidableEq, Repr

/-- doc-values content of one field: `none` = empty chunk (`start >= end` in `chunkOffsets`) -/
abbrev DvStore := Nat → Option DvChunk

/-- initial `curChunkNum`: `math.MaxInt64` (docvalues.go: `loadFieldDocValueReader`, `cloneInto`) -/
def noChunk : Nat := 2 ^ 63 - 1

structure DvVersion where
  keyBeforeLastRead : Bool    -- seeded change: `curChunkNum` assigned before the read of the data
  invalidateFirst : Bool
    -- repair F-C19-dvheader: `di.curChunkNum = math.MaxInt64` before the first read and before the
    -- header is touched (the key is set last, as before)
deriving DecidableEq, Repr

/-- the code as it is (with repair F-C19-dvheader) -/
def dfixed : DvVersion := { keyBeforeLastRead := false, invalidateFirst := true }
/-- the loader before repair F-C19-dvheader (HEAD 0ab4d30): a load that fails half-way leaves a
    mixed header behind that still answers for the previous chunk -/
def dV0 : DvVersion := { keyBeforeLastRead := false, invalidateFirst := false }
/-- seeded change (key before the last read) on the current code / on the pre-repair code -/
def dkeyFirst : DvVersion := { keyBeforeLastRead := true, invalidateFirst := true }
def dkeyFirstV0 : DvVersion := { keyBeforeLastRead := true, invalidateFirst := false }

structure DvReader where
  curChunkNum : Nat := noChunk
  hdrBuf : List Meta := []          -- backing array of curChunkHeader (its length = cap)
  hdrLen : Nat := 0                 -- len(curChunkHeader)
  data : Option (List Nat) := none  -- curChunkData (none = nil)
  uncompressed : List Nat := []     -- decompressed copy; [] = not there (`len(di.uncompressed) > 0`)
deriving DecidableEq, Repr

/-- `curChunkHeader` as the code sees it -/
def DvReader.header (r : DvReader) : List Meta := r.hdrBuf.take r.hdrLen

/-- the per-entry loop of `loadDvChunk`, entry `i` onwards: read, `DocNum`, read, `DocDvOffset` -/
def loadEntries (o : Oracle) : List Meta → Nat → Nat → List Meta → List Meta × Nat × Bool
  | [], _, clk, buf => (buf, clk, true)
  | e :: es, i, clk, buf =>
    if o clk then (buf, clk + 1, false)
    else
      let buf := buf.modify i (fun m => { m with doc := e.doc })
      if o (clk + 1) then (buf, clk + 2, false)
      else
        let buf := buf.modify i (fun m => { m with off := e.off })
        loadEntries o es (i + 1) (clk + 2) buf

/-- `loadDvChunk`; events (Bridge.events_loadDvChunk):
    `{ A:curChunkHeader A:curChunkData A:curChunkNum A:uncompressed R:nil }  A:curChunkNum  F:Read { R:err }
     { F:Errorf R:err }  { A:curChunkHeader } { A:curChunkHeader }
     { F:Read { R:err } A:DocNum A:DocNum F:Read { R:err } A:DocDvOffset A:DocDvOffset }
     F:Read { R:err } A:curChunkData A:curChunkNum A:uncompressed R:nil`
    (1 + 2·numDocs + 1 reads).  The `A:curChunkNum` before the first read is the invalidation of
    repair F-C19-dvheader (absent in `dV0`).  The header is resized - fresh zeroed array when the capacity does
    not suffice, else a reslice of the old array, stale cells included - and overwritten entry by
    entry BEFORE the load is known to succeed. -/
def DvReader.loadDvChunk (ver : DvVersion) (st : DvStore) (o : Oracle) (clk : Nat) (r : DvReader) (n : Nat) :
    DvReader × Nat × Bool :=
  match st n with
  | none =>
    ({ r with hdrLen := 0, data := none, curChunkNum := n, uncompressed := [] }, clk, true)
  | some c =>
    let r := if ver.invalidateFirst then { r with curChunkNum := noChunk } else r
    if o clk then (r, clk + 1, false)
    else
      let numDocs := c.entries.length
      let r := if r.hdrBuf.length < numDocs
        then { r with hdrBuf := List.replicate numDocs default, hdrLen := numDocs }
        else { r with hdrLen := numDocs }
      let (buf, clk1, ok) := loadEntries o c.entries 0 (clk + 1) r.hdrBuf
      let r := { r with hdrBuf := buf }
      if !ok then (r, clk1, false)
      else
        let r := if ver.keyBeforeLastRead then { r with curChunkNum := n } else r
        if o clk1 then (r, clk1 + 1, false)
        else ({ r with data := some c.data, curChunkNum := n, uncompressed := [] }, clk1 + 1, true)

/-- the loop of `sort.Search`: `for i < j { h := (i+j)/2; if !f(h) { i = h+1 } else { j = h } }` -/
def searchLoop (p : Nat → Bool) : Nat → Nat → Nat → Nat
  | 0, lo, _ => lo
  | fuel + 1, lo, hi =>
    if lo < hi then
      let h := (lo + hi) / 2
      if !p h then searchLoop p fuel (h + 1) hi else searchLoop p fuel lo h
    else lo

/-- `sort.Search(n, p)` - on any predicate, monotone or not -/
def sortSearch (n : Nat) (p : Nat → Bool) : Nat := searchLoop p n 0 n

/-- `getDocValueLocs`: `none` = (MaxUint64, MaxUint64) -/
def getDocValueLocs (hdr : List Meta) (d : Nat) : Option (Nat × Nat) :=
  let i := sortSearch hdr.length (fun i => decide (d ≤ (hdr.getD i default).doc))
  if i < hdr.length ∧ (hdr.getD i default).doc = d then
    some (if i > 0 then (hdr.getD (i - 1) default).off else 0, (hdr.getD i default).off)
  else none

/-- `visitDocValues`; events (Bridge.events_visitDocValues):
    `{ R:nil } { F:ZSTDDecompress { R:err } A:uncompressed } R:nil`.
    Answer = the slice handed to the term splitter; `[]` = no values.  A slice with
    `start > end` or beyond the decompressed data = panic (nil data decompresses to nothing). -/
def DvReader.visitDocValues (r : DvReader) (d : Nat) : DvReader × Outcome (List Nat) :=
  match getDocValueLocs r.header d with
  | none => (r, .ok [])
  | some (s, e) =>
    if s = e then (r, .ok [])
    else
      let r := if r.uncompressed.length > 0 then r else { r with uncompressed := r.data.getD [] }
      let u := r.uncompressed
      if s ≤ e ∧ e ≤ u.length then (r, .ok ((u.drop s).take (e - s))) else (r, .panic)

/-- `visitDocumentFieldTerms` for one field: load unless `docInChunk == curChunkNumber()` -/
def DvReader.visit (ver : DvVersion) (chunkOf : Nat → Nat) (st : DvStore) (o : Oracle) (clk : Nat)
    (r : DvReader) (d : Nat) : DvReader × Nat × Outcome (List Nat) :=
  if chunkOf d ≠ r.curChunkNum then
    let (r', clk', ok) := r.loadDvChunk ver st o clk (chunkOf d)
    if !ok then (r', clk', .error)
    else let (r'', out) := r'.visitDocValues d; (r'', clk', out)
  else let (r'', out) := r.visitDocValues d; (r'', clk, out)

def DvReader.run (ver : DvVersion) (chunkOf : Nat → Nat) (st : DvStore) (o : Oracle) :
    Nat → DvReader → List Nat → List (Outcome (List Nat))
  | _, _, [] => []
  | clk, r, d :: ds =>
    let (r', clk', out) := r.visit ver chunkOf st o clk d
    out :: DvReader.run ver chunkOf st o clk' r' ds

/-- what the document's values are: the slice between the end offset of its predecessor in its
    chunk and its own end offset; nothing when the chunk does not list it -/
def specValues (chunkOf : Nat → Nat) (st : DvStore) (d : Nat) : Outcome (List Nat) :=
  match st (chunkOf d) with
  | none => .ok []
  | some c =>
    match c.entries.findIdx? (fun m => m.doc == d) with
    | none => .ok []
    | some i =>
      let s := if i > 0 then (c.entries.getD (i - 1) default).off else 0
      let e := (c.entries.getD i default).off
      if s = e then .ok []
      else if s ≤ e ∧ e ≤ c.data.length then .ok ((c.data.drop s).take (e - s)) else .panic

/-- the ordering assumption on the storage: chunks hold disjoint ascending doc-number ranges
    (`chunkOf` = `docNum / chunkFactor` is monotone, every entry sits in its own chunk), and the
    entries of a chunk are strictly ascending (contentcoder.go writes them in doc order) -/
structure DvWF (chunkOf : Nat → Nat) (st : DvStore) : Prop where
  mono : ∀ d d', d ≤ d' → chunkOf d ≤ chunkOf d'
  own : ∀ n c, st n = some c → ∀ m ∈ c.entries, chunkOf m.doc = n
  sorted : ∀ n c, st n = some c → c.entries.Pairwise (fun a b => a.doc < b.doc)

/-- a load that fails AFTER its first read (= after it started to overwrite the header) -/
def partialFail (ver : DvVersion) (chunkOf : Nat → Nat) (st : DvStore) (o : Oracle) (clk : Nat)
    (r : DvReader) (d : Nat) : Prop :=
  chunkOf d ≠ r.curChunkNum ∧ st (chunkOf d) ≠ none ∧ o clk = false ∧
    (r.loadDvChunk ver st o clk (chunkOf d)).2.2 = false

/-- every load that fails half-way moves UPWARDS (to a chunk after the cached one), or nothing
    is cached -/
def UpwardFaults (ver : DvVersion) (chunkOf : Nat → Nat) (st : DvStore) (o : Oracle) :
    Nat → DvReader → List Nat → Prop
  | _, _, [] => True
  | clk, r, d :: ds =>
    (partialFail ver chunkOf st o clk r d → r.curChunkNum = noChunk ∨ r.curChunkNum < chunkOf d) ∧
    UpwardFaults ver chunkOf st o (r.visit ver chunkOf st o clk d).2.1 (r.visit ver chunkOf st o clk d).1 ds

end Ice.Model.CacheFault
