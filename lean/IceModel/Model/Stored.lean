import IceModel.Model.Varint
import IceModel.Model.Writer
/-
  Model of the stored-fields section of an ice segment (property C06).

  Writer side
    encodeStoredFieldValues   write.go:29-55        ↦ `encodeStoredFieldValues`
    the per-document loop     new.go:585-617        ↦ `encodeDoc`, `writeDocs`
    chunkedDocumentCoder      documentcoder.go      ↦ `Coder` (`add`/`newLine`, `flush`, `write`, `Size`)
    writeStoredFields         new.go:555-637        ↦ `writeStoredFields`
  Reader side
    Go slices                                       ↦ `Buf` (`slice` panics exactly when Go does)
    segment.Data.Read (memory backed)               ↦ `dataRead`
    ZSTDDecompress / DecodeAll (zstd.go:37-46)      ↦ `decompressInto`
    binary.Uvarint                                  ↦ `uvarintGo` (keeps Go's failure codes)
    binary.ReadUvarint on a bytes.Reader            ↦ `ioReadUvarint`
    getDocStoredOffsetsOnly / getDocStoredOffsets   read.go:34-87  ↦ `getDocStoredOffsets`
                                                    (its look-ahead half, read.go:53-75 ↦ `readRecordLens`)
    getDocStoredMetaAndUnCompressed                 read.go:23-32  ↦ the two slices of `visitRecord`
    visitDocument             segment.go:196-229    ↦ `visitWith` (`visit`; `visit_v0` = before the
                                                    look-ahead clamp), loop ↦ `visitLoop`
    loadStoredFieldChunk      load.go:137-168       ↦ `loadStoredFieldChunk`
  (`meta` is a Lean keyword: the meta bytes of a record are called `mta`.)

  The visit context (`visitDocumentCtx.buf`) lives in a `sync.Pool`: a visit starts with whatever
  slice the previous user left, so `visitWith` takes the incoming `Buf` and returns the outgoing
  one.  On `err`/`panic` the outgoing buffer is not modelled.

  uint64 arithmetic of the reader is rendered on `Nat` with explicit wrap-around (`add64`, `mul64`).
  A Go slice expression `b[i:j]` panics iff `j > cap(b)` or `i > j` (both compared as unsigned
  numbers, which also covers `int(x)` of an `x ≥ 2^63`: the negative index fails the same test).
  The block size `defaultDocumentChunkSize = 128` is a parameter `bs` so that small examples can
  be evaluated.  Core Lean only.
-/
namespace Ice.Model.Stored
open Ice Ice.Model
open Ice.Model.Writer (be unbe)

/-! ## `Res` plumbing -/

def Res.bind {α β : Type} : Res α → (α → Res β) → Res β
  | .ok a, f => f a
  | .err, _ => .err
  | .panic, _ => .panic

def Res.map {α β : Type} (f : α → β) : Res α → Res β
  | .ok a => .ok (f a)
  | .err => .err
  | .panic => .panic

/-- the compressor: an arbitrary pair of functions of which only the round trip is known
    (ZSTDCompress / ZSTDDecompress) -/
structure Codec where
  Z : Bytes → Bytes
  unZ : Bytes → Option Bytes
  rt : ∀ b, unZ (Z b) = some b

/-- the stored content of a document as `writeStoredFields` walks it: for the field ids in
    ascending order that have at least one storing instance, the values in document order -/
abbrev Doc := List (Nat × List Bytes)

/-! ## Specification vocabulary -/

/-- the stored values of a document in delivery order: by field-list order, input order within a
    field -/
def flat (d : Doc) : List (Nat × Bytes) := d.flatMap fun fv => fv.2.map fun v => (fv.1, v)

/-- what a visitor sees that answers `false` at call number `k` (`none`: never) -/
def takeStop {α : Type} : Option Nat → List α → List α
  | none, l => l
  | some k, l => l.take (k + 1)

/-! ## Writer -/

/-- `curr`, `s.metaBuf`, `data` of the per-document loop -/
structure Enc where
  curr : Nat := 0
  mta : Bytes := []
  data : Bytes := []
deriving Repr, DecidableEq

/-- `encodeStoredFieldValues` (write.go:29-55) -/
def encodeStoredFieldValues (fieldID : Nat) : List Bytes → Enc → Enc
  | [], e => e
  | v :: vs, e =>
    encodeStoredFieldValues fieldID vs
      { curr := e.curr + v.length,
        mta := e.mta ++ putUvarint fieldID ++ putUvarint e.curr ++ putUvarint v.length,
        data := e.data ++ v }

/-- the `for fieldID := 0; fieldID < len(s.FieldsInv)` loop (new.go:600-611) over the fields that
    exist in `docStoredFields` -/
def encodeDoc : Doc → Enc → Enc
  | [], e => e
  | (f, vs) :: r, e => encodeDoc r (encodeStoredFieldValues f vs e)

/-- the record of a document: what `Add(docNum, metaBytes, data)` appends to the block buffer -/
def record (d : Doc) : Bytes :=
  let e := encodeDoc d {}
  putUvarint e.mta.length ++ putUvarint e.data.length ++ e.mta ++ e.data

/-- `chunkedDocumentCoder`; `w` collects what was handed to `c.w` -/
structure Coder where
  chunkSize : Nat
  buf : Bytes := []
  n : Nat := 0
  bytes : Nat := 0
  offsets : List Nat := [0]          -- newChunkedDocumentCoder: append(c.offsets, 0)
  w : Bytes := []
deriving Repr, DecidableEq

/-- `flush` (documentcoder.go:71-88): an offset is appended even when nothing is buffered -/
def Coder.flush (cd : Codec) (c : Coder) : Coder :=
  let c :=
    if c.buf.length > 0 then
      { c with w := c.w ++ cd.Z c.buf, bytes := c.bytes + (cd.Z c.buf).length, buf := [] }
    else c
  { c with offsets := c.offsets ++ [c.bytes] }

/-- `Add` followed by `newLine` (documentcoder.go:35-69) -/
def Coder.add (cd : Codec) (c : Coder) (mta data : Bytes) : Coder :=
  let c := { c with
    buf := c.buf ++ putUvarint mta.length ++ putUvarint data.length ++ mta ++ data,
    n := c.n + 1 }
  if c.n % c.chunkSize != 0 then c else c.flush cd

/-- `Write` (documentcoder.go:90-118): flush, the offsets as uvarints, their byte length and their
    number as big-endian uint32 (`be 4` truncates like the `uint32(...)` conversions) -/
def Coder.write (cd : Codec) (c : Coder) : Coder :=
  let c := c.flush cd
  let tr := c.offsets.flatMap putUvarint
  { c with w := c.w ++ tr ++ be 4 tr.length ++ be 4 c.offsets.length }

/-- the document loop of `writeStoredFields` (new.go:577-617):
    `docStoredOffsets[docNum] = docChunkCoder.Size()` before `Add` -/
def writeDocs (cd : Codec) : List Doc → Coder → List Nat → Coder × List Nat
  | [], c, dso => (c, dso)
  | d :: r, c, dso =>
    let e := encodeDoc d {}
    writeDocs cd r (c.add cd e.mta e.data) (dso ++ [c.buf.length])

structure StoredOut where
  bytes : Bytes                  -- everything written, starting at file offset 0
  storedIndexOffset : Nat
  chunkOffsets : List Nat        -- `docChunkCoder.Offsets()`
deriving Repr, DecidableEq

/-- `writeStoredFields` (new.go:555-637).  It is the first writer of `convert` (new.go:288), so
    the coder's byte counter coincides with the file offset. -/
def writeStoredFields (cd : Codec) (bs : Nat) (docs : List Doc) : StoredOut :=
  let (c, dso) := writeDocs cd docs { chunkSize := bs } []
  let c := c.write cd
  { bytes := c.w ++ dso.flatMap (be 8), storedIndexOffset := c.w.length, chunkOffsets := c.offsets }

/-! ## Go slices -/

/-- a byte slice: `mem` is the backing array from the slice's first element up to its capacity
    (what lies beyond `len` is whatever earlier uses left there) -/
structure Buf where
  mem : Bytes
  len : Nat
deriving Repr, DecidableEq

def Buf.cap (b : Buf) : Nat := b.mem.length
def Buf.data (b : Buf) : Bytes := b.mem.take b.len
/-- the nil slice of a fresh `visitDocumentCtx` -/
def Buf.empty : Buf := ⟨[], 0⟩

/-- `b[i:j]` -/
def Buf.slice (b : Buf) (i j : Nat) : Res Buf :=
  if j ≤ b.mem.length ∧ i ≤ j then .ok ⟨b.mem.drop i, j - i⟩ else .panic

/-- `s[i]` -/
def index (l : List Nat) (i : Nat) : Res Nat :=
  match l[i]? with
  | some x => .ok x
  | none => .panic

/-- `segment.Data.Read(start, end)` on memory-backed data: `d.mem[start:end]`; `mem` reaches up to
    the capacity of the slice -/
def dataRead (mem : Bytes) (s e : Nat) : Res Bytes :=
  if e ≤ mem.length ∧ s ≤ e then .ok ((mem.drop s).take (e - s)) else .panic

def add64 (a b : Nat) : Nat := (a + b) % two64
def mul64 (a b : Nat) : Nat := (a * b) % two64

/-- `ZSTDDecompress(buf[:cap(buf)], src)` = `DecodeAll(src, dst[:0])`: the frame carries its content
    size; the destination is kept when `cap(dst) ≥ contentSize`, otherwise a zeroed array of
    capacity `contentSize + 16` is allocated (klauspost/compress v1.15.2 zstd/decoder.go:353-361) -/
def decompressInto (cd : Codec) (b : Buf) (src : Bytes) : Option Buf :=
  match cd.unZ src with
  | none => none
  | some c =>
    if c.length ≤ b.mem.length then some ⟨c ++ b.mem.drop c.length, c.length⟩
    else some ⟨c ++ List.replicate 16 0, c.length⟩

/-! ## varint readers with Go's exact failure behaviour -/

/-- `binary.Uvarint(buf)`: `(value, n)`; `(0, 0)` buffer too small, `(0, -(i+1))` overflow -/
def uvarintGoAux : Bytes → Nat → Nat → Nat → Nat × Int
  | [], _, _, _ => (0, 0)
  | b :: rest, x, s, i =>
    if i = 10 then (0, -((i : Int) + 1))
    else if b < 128 then
      if i = 9 ∧ b > 1 then (0, -((i : Int) + 1)) else (x + (b * 2 ^ s) % two64, (i : Int) + 1)
    else uvarintGoAux rest (x + ((b % 128) * 2 ^ s) % two64) (s + 7) (i + 1)

def uvarintGo (buf : Bytes) : Nat × Int := uvarintGoAux buf 0 0 0

/-- `uint64(read)` -/
def u64 (r : Int) : Nat := (r % (two64 : Int)).toNat

/-- result of `binary.ReadUvarint` on a `bytes.Reader`: value and the unread rest, `io.EOF`
    (nothing could be read), or another error (`io.ErrUnexpectedEOF`, overflow) -/
inductive RU where
  | ok (v : Nat) (rest : Bytes)
  | eof
  | err
deriving Repr, DecidableEq

def ioReadUvarintAux : Bytes → Nat → Nat → Nat → RU
  | [], _, _, i => if i = 0 then .eof else .err
  | b :: rest, x, s, i =>
    if i = 10 then .err
    else if b < 128 then
      if i = 9 ∧ b > 1 then .err else .ok (x + (b * 2 ^ s) % two64) rest
    else ioReadUvarintAux rest (x + ((b % 128) * 2 ^ s) % two64) (s + 7) (i + 1)

def ioReadUvarint (r : Bytes) : RU := ioReadUvarintAux r 0 0 0

/-! ## Reader -/

/-- the parts of `Segment` the stored-fields reader looks at -/
structure Seg where
  bs : Nat                       -- defaultDocumentChunkSize
  mem : Bytes                    -- s.data (memory backed), up to its capacity
  numDocs : Nat                  -- footer.numDocs
  storedIndexOffset : Nat        -- footer.storedIndexOffset
  chunkOffsets : List Nat        -- storedFieldChunkOffsets
  numFields : Nat                -- len(fieldsInv)
deriving Repr, DecidableEq

structure DocOffsets where
  storedOffset : Nat
  n : Nat
  metaLen : Nat
  dataLen : Nat
  buf : Buf
deriving Repr, DecidableEq

/-- the second half of `getDocStoredOffsets` (read.go:53-75): the two length varints of the
    record at `storedOffset` of the decompressed block `buf`, each read through a look-ahead
    window.  `clamp = true` is the code as it stands (window clamped to `len(buf)`);
    `clamp = false` is the look-ahead before the fix (`buf[off : off+MaxVarintLen64]`). -/
def readRecordLens (clamp : Bool) (buf : Buf) (storedOffset : Nat) : Res DocOffsets :=
  let blockLen := buf.len
  let metaLenEnd :=
    if clamp && decide (add64 storedOffset 10 > blockLen) then blockLen else add64 storedOffset 10
  Res.bind (buf.slice storedOffset metaLenEnd) fun w1 =>
  let r1 := uvarintGo w1.data
  let n1 := u64 r1.2
  let dataLenEnd :=
    if clamp && decide (add64 (add64 storedOffset n1) 10 > blockLen) then blockLen
    else add64 (add64 storedOffset n1) 10
  Res.bind (buf.slice (add64 storedOffset n1) dataLenEnd) fun w2 =>
  let r2 := uvarintGo w2.data
  .ok { storedOffset, n := add64 n1 (u64 r2.2), metaLen := r1.1, dataLen := r2.1, buf }

/-- `getDocStoredOffsets` (read.go:34-76) including `getDocStoredOffsetsOnly` (read.go:78-87):
    the document's offset from the index, its block through the chunk offsets, decompression
    into the context buffer, then `readRecordLens`. -/
def getDocStoredOffsets (cd : Codec) (clamp : Bool) (s : Seg) (buf : Buf) (docNum : Nat) :
    Res DocOffsets :=
  let indexOffset := add64 s.storedIndexOffset (mul64 8 docNum)
  Res.bind (dataRead s.mem indexOffset (add64 indexOffset 8)) fun d =>
  let storedOffset := unbe d
  let chunkI := docNum / s.bs
  Res.bind (index s.chunkOffsets chunkI) fun cs =>
  Res.bind (index s.chunkOffsets (chunkI + 1)) fun ce =>
  Res.bind (dataRead s.mem cs ce) fun compressed =>
  match decompressInto cd buf compressed with
  | none => .err
  | some buf => readRecordLens clamp buf storedOffset

/-- the `for keepGoing` loop of `visitDocument` (segment.go:207-227) on the unread rest of `meta`.
    `stop = some k`: the visitor answers `false` at its call number `k` (counting from 0).
    `fuel` bounds the iterations (each consumes at least three bytes of `meta`). -/
def visitLoop (numFields : Nat) (unc : Buf) : Nat → Bytes → Option Nat → Res (List (Nat × Bytes))
  | 0, _, _ => .err
  | fuel + 1, r, stop =>
    match ioReadUvarint r with
    | .eof => .ok []
    | .err => .err
    | .ok field r1 =>
      match ioReadUvarint r1 with
      | .ok offset r2 =>
        match ioReadUvarint r2 with
        | .ok l r3 =>
          -- value := uncompressed[offset : offset+l]
          Res.bind (unc.slice offset (add64 offset l)) fun value =>
          -- s.fieldsInv[field]
          if field < numFields then
            match stop with
            | some 0 => .ok [(field, value.data)]
            | some (k + 1) =>
              Res.map ((field, value.data) :: ·) (visitLoop numFields unc fuel r3 (some k))
            | none => Res.map ((field, value.data) :: ·) (visitLoop numFields unc fuel r3 none)
          else .panic
        | _ => .err
      | _ => .err

/-- the slices of `getDocStoredMetaAndUnCompressed` (read.go:29-30) and the loop of
    `visitDocument` on them -/
def visitRecord (numFields : Nat) (o : DocOffsets) (stop : Option Nat) :
    Res (List (Nat × Bytes) × Buf) :=
  let a := add64 o.storedOffset o.n
  let b := add64 a o.metaLen
  Res.bind (o.buf.slice a b) fun mta =>
  Res.bind (o.buf.slice b (add64 b o.dataLen)) fun data =>
  Res.map (fun l => (l, o.buf)) (visitLoop numFields data (mta.len + 1) mta.data stop)

/-- `visitDocument` (segment.go:196-229) with `getDocStoredMetaAndUnCompressed` (read.go:23-32):
    the delivered `(fieldID, value)` pairs and the context buffer afterwards -/
def visitWith (clamp : Bool) (cd : Codec) (s : Seg) (buf : Buf) (num : Nat) (stop : Option Nat) :
    Res (List (Nat × Bytes) × Buf) :=
  if num < s.numDocs then
    Res.bind (getDocStoredOffsets cd clamp s buf num) fun o => visitRecord s.numFields o stop
  else .ok ([], buf)

/-- the reader as it stands -/
def visit := visitWith true
/-- the reader before the look-ahead clamp (commit 269870a) -/
def visit_v0 := visitWith false

/-! ## Loading the chunk offsets -/

/-- `d.mem[a:b]` with `int` bounds -/
def dataReadI (mem : Bytes) (a b : Int) : Res Bytes :=
  if 0 ≤ a ∧ a ≤ b ∧ b ≤ (mem.length : Int) then .ok ((mem.drop a.toNat).take (b.toNat - a.toNat))
  else .panic

/-- `int(x)` of a uint64 -/
def toInt64 (x : Nat) : Int := if x % two64 < 2 ^ 63 then ((x % two64 : Nat) : Int) else ((x % two64 : Nat) : Int) - (two64 : Int)

/-- the `for i := 0; i < int(chunkNum)` loop of `loadStoredFieldChunk` (load.go:158-165) -/
def loadOffsetsLoop (mem : Bytes) (pos : Int) : Nat → Int → Res (List Nat)
  | 0, _ => .ok []
  | k + 1, offset =>
    Res.bind (dataReadI mem (pos + offset) (pos + offset + 10)) fun w =>
    let r := uvarintGo w
    Res.map (r.1 :: ·) (loadOffsetsLoop mem pos k (offset + r.2))

/-- `loadStoredFieldChunk` (load.go:137-168) on memory-backed data -/
def loadStoredFieldChunk (mem : Bytes) (storedIndexOffset : Nat) : Res (List Nat) :=
  let pos1 := toInt64 (storedIndexOffset + two64 - 4)
  Res.bind (dataReadI mem pos1 (pos1 + 4)) fun d1 =>
  let chunkNum := unbe d1
  let pos2 := pos1 - 4
  Res.bind (dataReadI mem pos2 (pos2 + 4)) fun d2 =>
  let chunkOffsetsLen := unbe d2
  let pos3 := pos2 - (chunkOffsetsLen : Int)
  loadOffsetsLoop mem pos3 chunkNum 0

/-- the segment `newWithChunkMode`/`initSegmentBase` builds from what `writeStoredFields` wrote;
    `tail` is everything written after the stored section (dictionaries, fields) -/
def segOfNew (cd : Codec) (bs numFields : Nat) (docs : List Doc) (tail : Bytes) : Seg :=
  let o := writeStoredFields cd bs docs
  { bs, mem := o.bytes ++ tail, numDocs := docs.length, storedIndexOffset := o.storedIndexOffset,
    chunkOffsets := o.chunkOffsets, numFields }

/-- the segment `load` builds from the same file: the chunk offsets are parsed from the trailer -/
def segOfLoad (cd : Codec) (bs numFields : Nat) (docs : List Doc) (tail : Bytes) : Res Seg :=
  let o := writeStoredFields cd bs docs
  Res.map (fun offs =>
    { bs, mem := o.bytes ++ tail, numDocs := docs.length, storedIndexOffset := o.storedIndexOffset,
      chunkOffsets := offs, numFields })
    (loadStoredFieldChunk (o.bytes ++ tail) o.storedIndexOffset)

end Ice.Model.Stored
