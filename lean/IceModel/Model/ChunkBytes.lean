import IceModel.Model.Varint
import IceModel.Model.Bits
/-
  The BYTE LAYER of postings lists.

  PART 1  entries ↔ bytes inside one chunk
    writer:  interim.writeDictsTermField (new.go:776-858) and mergeTermFreqNormLocs
             (merge.go:563-625) append, per posting,
               tfEncoder.Add (docNum, encodeFreqHasLocs(freq, numLocs>0), normBits)
               locEncoder.Add(docNum, numBytesLocs)            -- only if numLocs > 0
               locEncoder.Add(docNum, fieldID, pos, start, end) -- per location
             chunkedIntCoder.Add (intcoder.go:78-102) appends every value as a uvarint to the chunk
             buffer; `numBytesLocs` is the sum of `totalUvarintBytes` (write.go:113-128).
    reader:  memUvarintReader (memuvarint.go), PostingsIterator.readFreqNormHasLocs,
             skipFreqNormReadHasLocs, readLocation (posting.go:369-450), the location loop of
             nextAtOrAfter (posting.go:504-521) and the skip in currChunkNext (posting.go:652-661).

  PART 2  chunks ↔ stream
    writer:  chunkedIntCoder (intcoder.go): newChunkedIntCoder, Reset, SetChunkSize, Add, Close,
             Write, writeAt, modifyLengthsToEndOffsets
    reader:  chunkedIntDecoder (intdecoder.go): newChunkedIntDecoder, loadChunk; readChunkBoundary
    zstd (zstd.go) is a parameter `Codec` with its two laws.

  Go `uint64` arithmetic is rendered on `Nat` with explicit `% two64`; `int(x)` of a `uint64`
  `x ≥ 2^63` is negative (64-bit platform) and is handled case by case where the code does it.
  Everything that panics in Go (`S[C]` out of range, `chunkLens[currChunk]` out of range, division
  by zero, negative slice bounds) is `Res.panic`; a returned `error` is `Res.err`.

  Not modelled (stated here once): memory exhaustion / `makeslice: len out of range` for huge but
  positive lengths, and the 1-hit encoding path (`normBits1Hit != 0`), which never touches bytes.
-/
namespace Ice.Model.ChunkBytes
open Ice Ice.Model

/-! ### `Res` as a monad (error / panic propagate, like `if err != nil { return err }`) -/

@[inline] def rbind {α β : Type} (x : Res α) (f : α → Res β) : Res β :=
  match x with
  | .ok a => f a
  | .err => .err
  | .panic => .panic

instance : Monad Res where
  pure := .ok
  bind := rbind

def two63 : Nat := 2 ^ 63

/-! ## PART 1: entries ↔ bytes -/

/-- a location as the chunk stream carries it: the field is a field id -/
structure BLoc where
  fieldID : Nat
  pos : Nat
  start : Nat
  stop : Nat
deriving Repr, DecidableEq

/-- a posting at byte level (`doc` selects the chunk; it is not part of the chunk bytes) -/
structure Entry where
  doc : Nat
  freq : Nat
  norm : Nat
  locs : List BLoc
deriving Repr, DecidableEq

/-! ### writer side -/

/-- `tfEncoder.Add(docNum, encodeFreqHasLocs(freq, numLocs > 0), normBits)` -/
def encFN (e : Entry) : Bytes :=
  putUvarint (encodeFreqHasLocs e.freq (!e.locs.isEmpty)) ++ putUvarint e.norm

/-- `locEncoder.Add(docNum, fieldID, pos, start, end)` -/
def encLoc (l : BLoc) : Bytes :=
  putUvarint l.fieldID ++ putUvarint l.pos ++ putUvarint l.start ++ putUvarint l.stop

/-- `totalUvarintBytes` (write.go:113) -/
def totalUvarintBytes (a b c d : Nat) : Nat :=
  numUvarintBytes a + numUvarintBytes b + numUvarintBytes c + numUvarintBytes d

/-- the `numBytesLocs += totalUvarintBytes(…)` loop (new.go:811-815, merge.go:589-593) -/
def numBytesLocs (e : Entry) : Nat :=
  e.locs.foldl (fun n l => n + totalUvarintBytes l.fieldID l.pos l.start l.stop) 0

/-- what the location encoder receives for one posting: nothing if it has no locations, else the
    byte count followed by the locations -/
def encLocs (e : Entry) : Bytes :=
  if e.locs.isEmpty then [] else putUvarint (numBytesLocs e) ++ e.locs.flatMap encLoc

/-- uncompressed bytes of a freq/norm chunk holding the entries `es` -/
def fnBytes (es : List Entry) : Bytes := es.flatMap encFN

/-- uncompressed bytes of a location chunk holding the entries `es` -/
def locBytes (es : List Entry) : Bytes := es.flatMap encLocs

/-- The bounds the Go types impose on a location (`uint64` values). -/
def BLoc.Valid (l : BLoc) : Prop :=
  l.fieldID < 2 ^ 64 ∧ l.pos < 2 ^ 64 ∧ l.start < 2 ^ 64 ∧ l.stop < 2 ^ 64

instance (l : BLoc) : Decidable l.Valid := by unfold BLoc.Valid; infer_instance

/-- The bounds the Go types impose on an entry: `freq` is shifted left by one into a `uint64`
    (and read back into an `int`), norm bits and location values are `uint64`, and `numBytesLocs`
    (an `int`, at most 40 bytes per location) must not overflow (the reader converts it back to
    `int`), which any slice that fits into memory satisfies. -/
def Entry.Valid (e : Entry) : Prop :=
  e.freq < 2 ^ 63 ∧ e.norm < 2 ^ 64 ∧ e.locs.length < 2 ^ 57 ∧ ∀ l ∈ e.locs, l.Valid

instance (e : Entry) : Decidable e.Valid := by unfold Entry.Valid; infer_instance

/-! ### reader side: `memUvarintReader` -/

/-- `memUvarintReader`: the slice and the index of the next byte.  The cursor is a `Nat`: the
    only operation that could make the Go `int` negative is `SkipBytes` with a negative count,
    which `skipBytesInt` below handles. -/
structure Rd where
  S : Bytes
  C : Nat
deriving Repr, DecidableEq

/-- `Len()`: `len(S) - C` clamped at 0 (truncated subtraction does the clamping) -/
def Rd.len (r : Rd) : Nat := r.S.length - r.C

/-- `ReadUvarint()`.  `r.C` is stored before the overflow check, so after an `err` the Go reader
    stands behind the offending varint; `Res.err` carries no state (every caller abandons the
    iterator on error). -/
def Rd.readUvarint (r : Rd) : Res (Nat × Rd) :=
  match Model.readUvarint (r.S.drop r.C) with
  | .ok (v, n) => .ok (v, { r with C := r.C + n })
  | .err => .err
  | .panic => .panic

/-- `SkipUvarint()` -/
def Rd.skipUvarint (r : Rd) : Res Rd :=
  match Model.skipUvarint (r.S.drop r.C) with
  | .ok n => .ok { r with C := r.C + n }
  | .err => .err
  | .panic => .panic

/-- `SkipBytes(count)` for `count ≥ 0` -/
def Rd.skipBytes (r : Rd) (n : Nat) : Rd := { r with C := r.C + n }

/-- `SkipBytes(int(v))` for a `uint64` `v`.  For `v ≥ 2^63` the count is the negative number
    `v - 2^64`.  If the cursor would become negative the Go reader is left in a state in which
    every later `ReadUvarint`/`SkipUvarint` panics (negative index); the model reports that panic
    at the skip itself (the one place where the model is earlier than the code). -/
def Rd.skipBytesInt (r : Rd) (v : Nat) : Res Rd :=
  if v < two63 then .ok (r.skipBytes v)
  else if two64 - v ≤ r.C then .ok { r with C := r.C - (two64 - v) }
  else .panic

/-! ### reader side: the `PostingsIterator` helpers (general encoding) -/

/-- `readFreqNormHasLocs` (posting.go:369): (freq, norm, hasLocs) -/
def readFreqNormHasLocs (r : Rd) : Res ((Nat × Nat × Bool) × Rd) := do
  let (freqHasLocs, r) ← r.readUvarint
  let (freq, hasLocs) := decodeFreqHasLocs freqHasLocs
  let (norm, r) ← r.readUvarint
  return ((freq, norm, hasLocs), r)

/-- `skipFreqNormReadHasLocs` (posting.go:389) -/
def skipFreqNormReadHasLocs (r : Rd) : Res (Bool × Rd) := do
  let (freqHasLocs, r) ← r.readUvarint
  let r ← r.skipUvarint
  return (freqHasLocs % 2 != 0, r)

/-- the four reads of `readLocation` (posting.go:421).  The lookup `fieldsInv[fieldID]` that follows
    them belongs to the layer above (it panics for a field id the segment does not have). -/
def readLocation (r : Rd) : Res (BLoc × Rd) := do
  let (fieldID, r) ← r.readUvarint
  let (pos, r) ← r.readUvarint
  let (start, r) ← r.readUvarint
  let (stop, r) ← r.readUvarint
  return ({ fieldID, pos, start, stop }, r)

/-- `j < len(nextLocs)` -/
def capOk : Option Nat → Nat → Bool
  | some f, j => j < f
  | none, _ => true

/-- the loop `for startBytesRemaining - locReader.Len() < int(numLocsBytes) { readLocation(&nextLocs[j]); j++ }`
    (posting.go:512-519).  `nlb` is `int(numLocsBytes)` and is non-negative here.  `cap` is
    `len(i.nextLocs)` (= the decoded freq): `some f` makes `nextLocs[j]` panic for `j ≥ f` as the
    code does, `none` is the loop without that slice.  Each iteration consumes at least one byte or
    faults, so `nlb + 1` units of fuel are never used up (`readLocsLoop_fuel` in the lemma file);
    running out of fuel is reported as `panic`. -/
def readLocsLoop : Nat → Option Nat → Nat → Nat → Nat → Rd → List BLoc → Res (List BLoc × Rd)
  | 0, _, _, _, _, _, _ => .panic
  | fuel + 1, cap, start, nlb, j, r, acc =>
    if start - r.len < nlb then
      if capOk cap j then
        match readLocation r with
        | .ok (l, r') => readLocsLoop fuel cap start nlb (j + 1) r' (acc ++ [l])
        | .err => .err
        | .panic => .panic
      else .panic                                -- nextLocs[j]: index out of range
    else .ok (acc, r)

/-- the location part of `nextAtOrAfter` (posting.go:506-521): read `numLocsBytes`, then read
    locations until that many bytes are consumed.  For `numLocsBytes ≥ 2^63` the `int` is negative
    and the loop body never runs. -/
def readLocsWith (cap : Option Nat) (r : Rd) : Res (List BLoc × Rd) := do
  let (numLocsBytes, r) ← r.readUvarint
  if numLocsBytes < two63 then
    readLocsLoop (numLocsBytes + 1) cap r.len numLocsBytes 0 r []
  else return ([], r)

/-- byte-layer view (no bound from `nextLocs`) -/
def readLocs (r : Rd) : Res (List BLoc × Rd) := readLocsWith none r

/-- as in the code, with `len(nextLocs) = freq` -/
def readLocsFreq (freq : Nat) (r : Rd) : Res (List BLoc × Rd) := readLocsWith (some freq) r

/-- the location part of `currChunkNext` (posting.go:652-661): read `numLocsBytes`, `SkipBytes` -/
def skipLocs (r : Rd) : Res Rd := do
  let (numLocsBytes, r) ← r.readUvarint
  r.skipBytesInt numLocsBytes

/-- Specification-side driver (not Go code): decode the two streams of one chunk entry by entry,
    as a sequence of `Next` calls with all readers on does, until the freq/norm reader is
    exhausted.  Out of fuel is `err`. -/
def decodeAll : Nat → Rd → Rd → Res (List (Nat × Nat × List BLoc))
  | 0, _, _ => .err
  | fuel + 1, fr, lr =>
    if fr.len = 0 then .ok []
    else do
      let ((freq, norm, hasLocs), fr) ← readFreqNormHasLocs fr
      if hasLocs then
        let (locs, lr) ← readLocs lr
        let rest ← decodeAll fuel fr lr
        return (freq, norm, locs) :: rest
      else
        let rest ← decodeAll fuel fr lr
        return (freq, norm, []) :: rest

/-! ## PART 2: chunks ↔ stream -/

/-- zstd (`ZSTDCompress` = `EncodeAll`, `ZSTDDecompress` = `DecodeAll`) with the two facts the code
    relies on: decompression inverts compression, and the empty input compresses to the empty
    output (`writeAt` tests `len(c.final) == 0`, `Add` closes an untouched chunk 0). -/
structure Codec where
  Z : Bytes → Bytes
  unZ : Bytes → Option Bytes
  rt : ∀ b, unZ (Z b) = some b
  z_nil : Z [] = []

/-- `chunkedIntCoder`.  `chunkLens` is a slice: `lensArr` is its backing array (`cap(chunkLens)`
    = `lensArr.length`), `lensLen` its length; `SetChunkSize` reslices within the capacity. -/
structure Coder where
  chunkSize : Nat
  lensArr : List Nat
  lensLen : Nat
  currChunk : Nat
  chunkBuf : Bytes
  final : Bytes
deriving Repr, DecidableEq

def Coder.capLens (c : Coder) : Nat := c.lensArr.length

/-- the slice `c.chunkLens` -/
def Coder.chunkLens (c : Coder) : List Nat := c.lensArr.take c.lensLen

/-- `maxDocNum/chunkSize + 1` in `uint64`; division by zero panics -/
def totalChunks (chunkSize maxDocNum : Nat) : Res Nat :=
  if chunkSize = 0 then .panic else .ok ((maxDocNum / chunkSize + 1) % two64)

/-- `newChunkedIntCoder`.  A length `≥ 2^63` makes `make` panic (len out of range). -/
def Coder.new (chunkSize maxDocNum : Nat) : Res Coder := do
  let total ← totalChunks chunkSize maxDocNum
  if two63 ≤ total then .panic
  else return { chunkSize, lensArr := List.replicate total 0, lensLen := total,
                currChunk := 0, chunkBuf := [], final := [] }

/-- `Reset`: the loop zeroes the elements of the slice, not of the whole backing array -/
def Coder.reset (c : Coder) : Coder :=
  { c with final := [], chunkBuf := [], currChunk := 0,
           lensArr := List.replicate (min c.lensLen c.lensArr.length) 0 ++ c.lensArr.drop c.lensLen }

/-- `SetChunkSize`.  `int(total)` negative: `cap < total` is false and `chunkLens[:total]`
    panics.  Reslicing keeps the backing array (and whatever it holds behind the old length). -/
def Coder.setChunkSize (c : Coder) (chunkSize maxDocNum : Nat) : Res Coder := do
  let total ← totalChunks chunkSize maxDocNum
  if two63 ≤ total then .panic
  else if c.capLens < total then
    return { c with chunkSize, lensArr := List.replicate total 0, lensLen := total }
  else return { c with chunkSize, lensLen := total }

/-- `Close`: compress the chunk buffer, record its length at `chunkLens[currChunk]`
    (index out of range → panic), append to `final`, set the double-close sentinel.
    `ZSTDCompress` never returns an error. -/
def Coder.close (K : Codec) (c : Coder) : Res Coder :=
  let compressed := K.Z c.chunkBuf
  if c.currChunk < c.lensLen ∧ c.currChunk < c.lensArr.length then
    .ok { c with lensArr := c.lensArr.set c.currChunk compressed.length,
                 final := c.final ++ compressed,
                 currChunk := c.capLens }
  else .panic

/-- `Add(docNum, vals...)`.  The error of the inner `Close()` is dropped by the code (it is always
    nil); a panic propagates.  `bytes.Buffer.Write` never fails. -/
def Coder.add (K : Codec) (c : Coder) (docNum : Nat) (vals : List Nat) : Res Coder :=
  if c.chunkSize = 0 then .panic                     -- integer divide by zero
  else
    let chunk := docNum / c.chunkSize
    if chunk ≠ c.currChunk then
      match c.close K with
      | .ok c => .ok { c with chunkBuf := vals.flatMap putUvarint, currChunk := chunk }
      | .err => .err
      | .panic => .panic
    else .ok { c with chunkBuf := c.chunkBuf ++ vals.flatMap putUvarint }

/-- a sequence of `Add` calls -/
def Coder.addAll (K : Codec) (c : Coder) : List (Nat × List Nat) → Res Coder
  | [] => .ok c
  | (d, vs) :: rest =>
    match c.add K d vs with
    | .ok c => Coder.addAll K c rest
    | .err => .err
    | .panic => .panic

/-- `Add`… then `Close`: what the builder and the merger do per term -/
def Coder.encode (K : Codec) (c : Coder) (adds : List (Nat × List Nat)) : Res Coder :=
  match c.addAll K adds with
  | .ok c => c.close K
  | .err => .err
  | .panic => .panic

/-- Specification side: the uncompressed bytes that belong to chunk `c`, i.e. the values of all
    additions whose document number falls into chunk `c`, in order, as uvarints -/
def bytesOfChunk (chunkSize : Nat) (adds : List (Nat × List Nat)) (c : Nat) : Bytes :=
  (adds.filter (fun a => a.1 / chunkSize == c)).flatMap (fun a => a.2.flatMap putUvarint)

/-- the `tfEncoder.Add` calls of `writeDictsTermField` / `mergeTermFreqNormLocs` for the postings
    `es` (one call per posting) -/
def tfAdds (es : List Entry) : List (Nat × List Nat) :=
  es.map (fun e => (e.doc, [encodeFreqHasLocs e.freq (!e.locs.isEmpty), e.norm]))

/-- the `locEncoder.Add` calls for one posting: none without locations, else the byte count and
    then one call per location -/
def locAddsOf (e : Entry) : List (Nat × List Nat) :=
  if e.locs.isEmpty then []
  else (e.doc, [numBytesLocs e]) :: e.locs.map (fun l => (e.doc, [l.fieldID, l.pos, l.start, l.stop]))

def locAdds (es : List Entry) : List (Nat × List Nat) := es.flatMap locAddsOf

/-- `modifyLengthsToEndOffsets`: running sums in `uint64` -/
def endOffsets : Nat → List Nat → List Nat
  | _, [] => []
  | run, l :: ls => ((run + l) % two64) :: endOffsets ((run + l) % two64) ls

/-- `Write`: returns the bytes handed to the writer; as in the code the lengths in `chunkLens`
    are overwritten by the end offsets (a second `Write` without `Reset` emits garbage). -/
def Coder.write (c : Coder) : Bytes × Coder :=
  let offs := endOffsets 0 c.chunkLens
  (putUvarint offs.length ++ offs.flatMap putUvarint ++ c.final,
   { c with lensArr := offs ++ c.lensArr.drop c.lensLen })

def Coder.streamBytes (c : Coder) : Bytes := c.write.1

/-- `writeAt` with the writer standing at `count` (`chw.Count()`): start offset (0 =
    `termNotEncoded`), bytes written, coder afterwards -/
def Coder.writeAt (c : Coder) (count : Nat) : Nat × Bytes × Coder :=
  if c.final.length = 0 then (0, [], c)
  else (count % two64, c.write.1, c.write.2)

/-! ### decoder -/

/-- `binary.Uvarint(buf)` as the decoder uses it: the value and `uint64(n)`.  On a short buffer Go
    returns `(0, 0)`, on overflow `(0, -(i+1))`; `newChunkedIntDecoder` checks neither and adds
    `uint64(n)` to its offset, so the model keeps the wrapped number. -/
def uvarintU64Aux : Bytes → Nat → Nat → Nat → Nat × Nat
  | [], _, _, _ => (0, 0)
  | b :: rest, x, s, i =>
    if i = 10 then (0, two64 - (i + 1))
    else if b < 128 then
      if i = 9 ∧ b > 1 then (0, two64 - (i + 1)) else (x + (b * 2 ^ s) % two64, i + 1)
    else uvarintU64Aux rest (x + ((b % 128) * 2 ^ s) % two64) (s + 7) (i + 1)

def uvarintU64 (buf : Bytes) : Nat × Nat := uvarintU64Aux buf 0 0 0

/-- `int(a) < int(b)` for `uint64` `a`, `b` (two's complement, 64-bit `int`) -/
def intLt (a b : Nat) : Bool :=
  if two63 ≤ a then (if two63 ≤ b then a < b else true)
  else (if two63 ≤ b then false else a < b)

/-- `data.Read(int(s), int(e))` for `uint64` `s`, `e` (segment.Data, data.go:56).
    `file = false`: memory-backed data whose capacity is the whole of `data` (what
    `data.Slice(0, len-footerLen)` of a memory-mapped file gives): `mem[s:e]` is the plain slice,
    and panics for negative or inverted bounds.
    `file = true`: file-backed data of exactly `data.length` bytes: `make([]byte, e-s)` panics for
    `e < s`, `ReadAt` fails (negative offset, or EOF on a short read) otherwise.
    That no read of the decoder leaves `data` is therefore the statement "the `file = true`
    variant succeeds" (`T6_file` in Props/ChunkBytes.lean). -/
def Data.read (file : Bool) (data : Bytes) (s e : Nat) : Res Bytes :=
  if intLt e s then .panic                         -- inverted bounds (both backends)
  else if two63 ≤ s then (if file then .err else .panic)   -- negative start
  else if file && data.length < e then .err
  else .ok ((data.drop s).take (e - s))

structure Decoder where
  file : Bool
  data : Bytes
  startOffset : Nat
  dataStartOffset : Nat
  chunkOffsets : List Nat
deriving Repr, DecidableEq

/-- the `for i := 0; i < int(numChunks); i++` loop of `newChunkedIntDecoder`: returns the offsets
    and the running `n` -/
def readOffsets (file : Bool) (data : Bytes) (offset : Nat) : Nat → Nat → List Nat → Res (List Nat × Nat)
  | 0, n, acc => .ok (acc, n)
  | k + 1, n, acc =>
    match Data.read file data ((offset + n) % two64) ((offset + n + 10) % two64) with
    | .ok w =>
      let (v, read) := uvarintU64 w
      readOffsets file data offset k ((n + read) % two64) (acc ++ [v])
    | .err => .err
    | .panic => .panic

/-- `newChunkedIntDecoder(data, offset, nil)`.  `int(numChunks) < 0` panics in the reslice /
    `make`. -/
def Decoder.newWith (file : Bool) (data : Bytes) (offset : Nat) : Res Decoder := do
  let (numChunks, n) ←
    (if offset = 0 then (.ok (0, 0) : Res (Nat × Nat))
     else
      match Data.read file data (offset % two64) ((offset + 10) % two64) with
      | .ok w => .ok (uvarintU64 w)
      | .err => .err
      | .panic => .panic)
  if two63 ≤ numChunks then .panic
  else
    let (offs, n) ← readOffsets file data offset numChunks n []
    return { file, data, startOffset := offset, dataStartOffset := (offset + n) % two64,
             chunkOffsets := offs }

/-- memory-backed data (reads are plain slices of `data`) -/
def Decoder.new (data : Bytes) (offset : Nat) : Res Decoder := Decoder.newWith false data offset

/-- `readChunkBoundary` (for `chunk < len(offsets)`, which `loadChunk` has checked) -/
def readChunkBoundary (chunk : Nat) (offsets : List Nat) : Res (Nat × Nat) :=
  match (if chunk > 0 then offsets[chunk - 1]? else some 0), offsets[chunk]? with
  | some s, some e => .ok (s, e)
  | _, _ => .panic

/-- `loadChunk(chunk)` for `chunk ≥ 0`: the bytes the new `memUvarintReader` is placed on -/
def Decoder.loadChunk (K : Codec) (d : Decoder) (chunk : Nat) : Res Bytes :=
  if d.startOffset = 0 then .ok []
  else if chunk ≥ d.chunkOffsets.length then .err
  else do
    let (s, e) ← readChunkBoundary chunk d.chunkOffsets
    let bytes ← Data.read d.file d.data ((d.dataStartOffset + s) % two64) ((d.dataStartOffset + e) % two64)
    match K.unZ bytes with
    | some b => return b
    | none => .err

end Ice.Model.ChunkBytes
