import IceModel.Model.DocValues
import IceModel.Model.Format
/-
  Model of the MULTI-FIELD driver of the doc-value reader (property C07, the part around
  `Model/DocValues.lean`): a `DocumentValueReader` opened on a list of requested field names.

  Go source (all line numbers: docvalues.go at HEAD unless said otherwise):

    Segment.DocumentValueReader            357-362  ↦ `Seg.documentValueReader`  (fields kept, state nil)
    DocumentValueReader.VisitDocumentValues 348-355 ↦ `DVR.visitDocumentValues`, `visitDoc`
        349  call of visitDocumentFieldTerms with d.fields, d.state
        350-352  on error d.state is NOT replaced                    ↦ `Res.err` (see "not modelled")
        353  d.state = state
    Segment.visitDocumentFieldTerms        286-340  ↦ `visitDocumentFieldTerms`
        289-294  dvs == nil → fresh state (segment NOT set); else if dvs.segment != s →
                 dvs.segment = s; dvs.dvrs = nil                      ↦ `enterState`
        296-310  dvs.dvrs == nil → make the map, loop over the requested names:
                 301-303 unknown name → continue; 304 fieldID = fieldIDPlus1 - 1 (uint16);
                 305-308 reader of the segment exists and is non-nil → clone it into the map
                                                                      ↦ `makeClones`
        314-318  chunkFactor = getChunkSize(legacyChunkMode,0,0) (= 1024, never fails);
                 docInChunk = localDocNum / chunkFactor               ↦ parameter `cs` (`cs = 0`: the
                                                                        division panics)
        319-338  the loop over the requested names                    ↦ `visitLoop`
                 323-325 unknown name → continue
                 326     fieldID = fieldIDPlus1 - 1 (uint16)
                 327     dvr, ok = dvs.dvrs[fieldID]; ok && dvr != nil
                 329-334 reload test, loadDvChunk, error → return dvs, err
                 336     _ = dvr.visitDocValues(...)  (error dropped)
                         329-336 are `DocValues.Reader.visit` (the existing one-field model)
                 the visitor receives `di.field` (docvalues.go:268), the name the reader was
                 loaded with (segment.go:341: `fieldsInv[fieldID]`), NOT the requested string
                                                                      ↦ `Seg.nameOf`
        339  return dvs, nil
    docVisitState                          29-32    ↦ `VisitState` (`segment` takes only the values
                                                      nil and `s`: `segSet`)
    cloneInto                              52-66    ↦ `DocValues.Reader.clone` (the result does not
                                                      depend on the reader cloned INTO; slice
                                                      capacities are not modelled)
    Segment.fieldsMap (load.go:127-128 `s.fieldsMap[name] = uint16(fieldID + 1)`, the same in
      new.go:276; a later field of the same name overwrites)         ↦ `Seg.fieldsMap`
    Segment.fieldDvReaders (segment.go:310-353, modelled by `Format.loadDvReaders`)
                                                                      ↦ `Seg.dvReaders`

  WHAT THE CODE DOES (and the model follows):
    * `dvs.segment` is not set when the state is created (line 290), so on the SECOND call of a
      `DocumentValueReader` `dvs.segment != s` holds, the segment is set and the map of clones
      is thrown away and made again (fresh map, fresh readers: the caches filled by the first
      call are lost).  From the third call on the clones are kept.
    * the clones live in a map keyed by field id, so a name requested twice shares ONE clone:
      the second occurrence finds the chunk loaded (and decompressed) by the first and delivers
      the same terms a second time.
    * the variable `dvr` is declared outside the loop (line 319) but assigned at line 327 before
      every use, and an unknown name `continue`s before it: no staleness.  The seeded change
      "unknown name does not skip the visit" is `visitLoopStale` below.

  NOT MODELLED / LIMITS:
    * on an error Go returns with the readers partially updated and with the visitor already
      called for the earlier fields of this document; `VisitDocumentValues` keeps the old
      `d.state` POINTER (whose pointee was mutated), or nil on the first call.  The model, like
      the one-field model, only reports `err` / `panic`: a sequence of visits ends there.
    * `fieldDvReaders` is a `map[uint16]`: with more than 65536 fields later readers would
      overwrite earlier ones.  The list `Seg.dvReaders` is faithful up to 65536 fields; the
      uint16 arithmetic of `fieldsMap` / `fieldIDPlus1 - 1` IS modelled (`u16`).
-/
namespace Ice.Model.DvLoop
open Ice Ice.Model Ice.Model.DocValues

/-- `uint16(n)` -/
def u16 (n : Nat) : Nat := n % 65536

/-- what the driver uses of a `*Segment` -/
structure Seg where
  data : Data
  /-- fieldID → name -/
  fieldsInv : List Bytes
  /-- entry `i` is `fieldDvReaders[i]` (`none`: no entry / nil) -/
  dvReaders : List (Option Reader)
deriving Repr, DecidableEq

def Seg.ofLoaded (ld : Format.Loaded) : Seg :=
  { data := ld.data, fieldsInv := ld.fieldsInv, dvReaders := ld.dvReaders }

/-- the index of the LAST occurrence of `name` in `l`, counted from `id` -/
def lastIdxAux : List Bytes → Nat → Bytes → Option Nat
  | [], _, _ => none
  | n :: r, id, name =>
    match lastIdxAux r (id + 1) name with
    | some j => some j
    | none => if n = name then some id else none

def lastIdx (l : List Bytes) (name : Bytes) : Option Nat := lastIdxAux l 0 name

/-- `s.fieldsMap[name]` (`fieldIDPlus1, ok`): the assignments `fieldsMap[fieldsInv[i]] = uint16(i+1)`
    for `i = 0, 1, …` in this order -/
def Seg.fieldsMap (s : Seg) (name : Bytes) : Option Nat :=
  (lastIdx s.fieldsInv name).map (fun i => u16 (i + 1))

/-- `fieldID := fieldIDPlus1 - 1` on uint16 -/
def fieldIdOf (fieldIDPlus1 : Nat) : Nat := u16 (fieldIDPlus1 + 65535)

/-- `di.field` of the reader `fieldDvReaders[fieldID]` -/
def Seg.nameOf (s : Seg) (fieldID : Nat) : Bytes := s.fieldsInv.getD fieldID []

/-! ### the map `dvs.dvrs` -/

/-- `map[uint16]*docValueReader`; the values are never nil (`cloneInto` returns a reader) -/
abbrev DvMap := List (Nat × Reader)

def mget : DvMap → Nat → Option Reader
  | [], _ => none
  | (k', v) :: m, k => if k' = k then some v else mget m k

def mset : DvMap → Nat → Reader → DvMap
  | [], k, v => [(k, v)]
  | (k', v') :: m, k, v => if k' = k then (k, v) :: m else (k', v') :: mset m k v

/-- `docVisitState` -/
structure VisitState where
  /-- `dvs.segment == s` (otherwise it is nil) -/
  segSet : Bool
  /-- `dvs.dvrs` (`none`: nil map) -/
  dvrs : Option DvMap
deriving Repr, DecidableEq

/-- lines 289-294 -/
def enterState : Option VisitState → VisitState
  | none => { segSet := false, dvrs := none }
  | some st => if st.segSet then st else { segSet := true, dvrs := none }

/-- lines 300-309: the loop filling the fresh map -/
def makeClones (s : Seg) : List Bytes → DvMap → DvMap
  | [], m => m
  | f :: fs, m =>
    match s.fieldsMap f with
    | none => makeClones s fs m
    | some p1 =>
      match s.dvReaders[fieldIdOf p1]? with
      | some (some dvIter) => makeClones s fs (mset m (fieldIdOf p1) dvIter.clone)
      | _ => makeClones s fs m

/-- lines 296-310: the map the visit works with -/
def startMap (s : Seg) (fields : List Bytes) (dvs : VisitState) : DvMap :=
  match dvs.dvrs with
  | some m => m
  | none => makeClones s fields []

/-- lines 320-338 -/
def visitLoop (z : Codec) (s : Seg) (cs doc : Nat) : List Bytes → DvMap →
    Res (DvMap × List (Bytes × Bytes))
  | [], m => .ok (m, [])
  | f :: fs, m =>
    match s.fieldsMap f with
    | none => visitLoop z s cs doc fs m
    | some p1 =>
      match mget m (fieldIdOf p1) with
      | none => visitLoop z s cs doc fs m
      | some dvr =>
        match dvr.visit z s.data cs doc with
        | .ok r =>
          match visitLoop z s cs doc fs (mset m (fieldIdOf p1) r.2) with
          | .ok rest => .ok (rest.1, r.1.map (fun t => (s.nameOf (fieldIdOf p1), t)) ++ rest.2)
          | .err => .err
          | .panic => .panic
        | .err => .err
        | .panic => .panic

/-- `Segment.visitDocumentFieldTerms` -/
def visitDocumentFieldTerms (z : Codec) (s : Seg) (cs : Nat) (localDocNum : Nat)
    (fields : List Bytes) (dvs : Option VisitState) : Res (VisitState × List (Bytes × Bytes)) :=
  let dvs := enterState dvs
  let m := startMap s fields dvs
  if cs = 0 then .panic else
  match visitLoop z s cs localDocNum fields m with
  | .ok r => .ok ({ dvs with dvrs := some r.1 }, r.2)
  | .err => .err
  | .panic => .panic

/-- `DocumentValueReader` (the segment is a parameter of the operations) -/
structure DVR where
  fields : List Bytes
  state : Option VisitState
deriving Repr, DecidableEq

/-- `Segment.DocumentValueReader` -/
def Seg.documentValueReader (_s : Seg) (fields : List Bytes) : DVR := { fields, state := none }

/-- `VisitDocumentValues`: the pairs handed to the visitor, in order -/
def DVR.visitDocumentValues (z : Codec) (s : Seg) (cs : Nat) (d : DVR) (number : Nat) :
    Res (DVR × List (Bytes × Bytes)) :=
  match visitDocumentFieldTerms z s cs number d.fields d.state with
  | .ok r => .ok ({ d with state := some r.1 }, r.2)
  | .err => .err
  | .panic => .panic

/-- one visit, on the state alone: `State → requested → doc → State × delivered` -/
def visitDoc (z : Codec) (s : Seg) (cs : Nat) (st : Option VisitState) (requested : List Bytes)
    (doc : Nat) : Res (Option VisitState × List (Bytes × Bytes)) :=
  match visitDocumentFieldTerms z s cs doc requested st with
  | .ok r => .ok (some r.1, r.2)
  | .err => .err
  | .panic => .panic

/-- a sequence of `VisitDocumentValues` calls on one `DocumentValueReader` -/
def visitDocs (z : Codec) (s : Seg) (cs : Nat) (requested : List Bytes) :
    Option VisitState → List Nat → Res (Option VisitState × List (List (Bytes × Bytes)))
  | st, [] => .ok (st, [])
  | st, d :: ds =>
    match visitDoc z s cs st requested d with
    | .ok r =>
      match visitDocs z s cs requested r.1 ds with
      | .ok rs => .ok (rs.1, r.2 :: rs.2)
      | .err => .err
      | .panic => .panic
    | .err => .err
    | .panic => .panic

/-- the whole life of a reader: `DocumentValueReader(requested)`, then the visits -/
def readDocs (z : Codec) (s : Seg) (cs : Nat) (requested : List Bytes) (ds : List Nat) :
    Res (List (List (Bytes × Bytes))) :=
  match visitDocs z s cs requested (s.documentValueReader requested).state ds with
  | .ok r => .ok r.2
  | .err => .err
  | .panic => .panic

/-! ### the seeded change C07-e: the reader variable survives an unknown name

  ```go
  var dvr *docValueReader
  for _, field := range fields {
      if fieldIDPlus1, ok := s.fieldsMap[field]; ok {
          dvr = dvs.dvrs[fieldIDPlus1-1]
      }
      if dvr != nil { … reload test, visitDocValues … }
  }
  ```
  `cur` is the key of the map entry `dvr` points to (`none`: nil). -/

def visitLoopStale (z : Codec) (s : Seg) (cs doc : Nat) : List Bytes → Option Nat → DvMap →
    Res (DvMap × List (Bytes × Bytes))
  | [], _, m => .ok (m, [])
  | f :: fs, cur, m =>
    let cur := match s.fieldsMap f with
      | none => cur                                     -- NOT reset
      | some p1 => (mget m (fieldIdOf p1)).map (fun _ => fieldIdOf p1)
    match cur with
    | none => visitLoopStale z s cs doc fs cur m
    | some k =>
      match mget m k with
      | none => visitLoopStale z s cs doc fs cur m      -- unreachable: `cur` is a key of `m`
      | some dvr =>
        match dvr.visit z s.data cs doc with
        | .ok r =>
          match visitLoopStale z s cs doc fs cur (mset m k r.2) with
          | .ok rest => .ok (rest.1, r.1.map (fun t => (s.nameOf k, t)) ++ rest.2)
          | .err => .err
          | .panic => .panic
        | .err => .err
        | .panic => .panic

def visitDocumentFieldTermsStale (z : Codec) (s : Seg) (cs : Nat) (localDocNum : Nat)
    (fields : List Bytes) (dvs : Option VisitState) : Res (VisitState × List (Bytes × Bytes)) :=
  let dvs := enterState dvs
  let m := startMap s fields dvs
  if cs = 0 then .panic else
  match visitLoopStale z s cs localDocNum fields none m with
  | .ok r => .ok ({ dvs with dvrs := some r.1 }, r.2)
  | .err => .err
  | .panic => .panic

def visitDocsStale (z : Codec) (s : Seg) (cs : Nat) (requested : List Bytes) :
    Option VisitState → List Nat → Res (Option VisitState × List (List (Bytes × Bytes)))
  | st, [] => .ok (st, [])
  | st, d :: ds =>
    match visitDocumentFieldTermsStale z s cs d requested st with
    | .ok r =>
      match visitDocsStale z s cs requested (some r.1) ds with
      | .ok rs => .ok (rs.1, r.2 :: rs.2)
      | .err => .err
      | .panic => .panic
    | .err => .err
    | .panic => .panic

def readDocsStale (z : Codec) (s : Seg) (cs : Nat) (requested : List Bytes) (ds : List Nat) :
    Res (List (List (Bytes × Bytes))) :=
  match visitDocsStale z s cs requested none ds with
  | .ok r => .ok r.2
  | .err => .err
  | .panic => .panic

/-! ### specification -/

/-- what one visit has to deliver, given the terms `T fieldID doc` of every field: the requested
    names in request order, each with its terms; nothing for a name the segment does not know -/
def expected (fieldsInv : List Bytes) (T : Nat → Nat → List Bytes) (requested : List Bytes)
    (doc : Nat) : List (Bytes × Bytes) :=
  requested.flatMap fun n =>
    match lastIdx fieldsInv n with
    | none => []
    | some i => (T i doc).map (fun t => (n, t))

end Ice.Model.DvLoop
