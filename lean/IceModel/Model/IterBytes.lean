import IceModel.Model.Iter
import IceModel.Model.ChunkBytes
/-
  BYTE-LEVEL model of `PostingsIterator` (posting.go:140-218, 352-669) for the general encoding.

  `IceModel/Model/Iter.lean` is the same iterator with one list element per posting in the two
  chunk readers.  Here the two readers are `chunkedIntDecoder`s (intdecoder.go) over the bytes of
  the segment: each owns the chunk offsets it parsed out of `data`, a decompressed chunk buffer and
  a `memUvarintReader` cursor into it.  The roaring cursors (`all`, `Actual`) are, as in `Iter.It`,
  the lists of the document numbers still ahead.

  Mirrors, function by function (all of them return `Res`: `err` is a returned Go `error`,
  `panic` a Go panic - nil pointer, index out of range, negative slice bound):
    newChunkedIntDecoder(data, off, rv)   ↦ `newDecB`          (rv = none: `&chunkedIntDecoder{}`)
    chunkedIntDecoder.loadChunk           ↦ `DecB.loadChunk`   (incl. the `termNotEncoded` path)
    chunkedIntDecoder.reset / isNil       ↦ `DecB.reset` / `DecB.isNil`
    PostingsList.iterator(…, rv)          ↦ `iteratorB`        (`mkB` = fresh, `mkBReuse` = reused;
                                            `keptFn`/`keptLc`/`keptCap`, `newSlot`)
    PostingsIterator.loadChunk            ↦ `loadChunkB`
    currChunkNext                         ↦ `currChunkNextB` = `ensureB` ; `consumeB`
    nextDocNumAtOrAfter / …Clean          ↦ `nextDocB` (`exclLoopB`, `cleanLoopB`, `repeatSkipB`)
    nextAtOrAfter                         ↦ `stepB` = `nextDocB` ; `deliverB` (`readLocsB`)

  Go slices that are REUSED are modelled with what lies behind their length: `offsTail` /
  `uncTail` are the parts of the backing arrays of `chunkOffsets` / `uncompressed` behind `len`
  (so `cap = len + tail.length`, and the tails hold STALE values of earlier uses).
  `curChunkBytes` and the reader's `S` alias `uncompressed` in Go; the model gives each its own
  copy: the array is written only by `ZSTDDecompress` inside `loadChunk`, which re-points both.
  `nextLocs` is modelled by its capacity (`nextLocsCap`): the code sizes it to `len = freq`, writes
  `nextLocs[j]` before it appends `&nextLocs[j]` to the posting, and the posting's locations are
  those pointers, so no stale element is ever visible; `nextSegmentLocs` and `buf` are never read.

  Inherited from the entry-level model (not re-examined here): document numbers, chunk numbers and
  `atOrAfter` are `Nat`s (Go: `uint32(atOrAfter)`, `uint32(chunkSize)`); `Posting.norm` is the
  32-bit pattern (`math.Float32frombits(uint32(normBits))`, here `% 2^32`); `int(pos)` etc. keep the
  `uint64` bit pattern.  Memory exhaustion (`make([]Location, freq, 2*freq)`) is not modelled.
-/
namespace Ice.Model.IterBytes
open Ice Ice.Spec Ice.Model Ice.Model.ChunkBytes
open Ice.Model.Iter (RFlags)

/-! ## `chunkedIntDecoder` with its buffers -/

/-- `chunkedIntDecoder` (intdecoder.go:24-32).  `d` holds `startOffset`, `dataStartOffset`, the
    slice `chunkOffsets` and the `*segment.Data` (`file`, `data`); `dataNil` says that the `data`
    pointer is nil (after `reset`). -/
structure DecB where
  d : Decoder
  dataNil : Bool
  offsTail : List Nat        -- backing array of `chunkOffsets` behind its length (stale)
  curChunkBytes : Bytes      -- nil and empty are the same for `isNil`
  uncompressed : Bytes
  uncTail : Bytes            -- backing array of `uncompressed` behind its length (stale)
  r : Option Rd              -- `*memUvarintReader`; `none` = nil pointer
deriving Repr, DecidableEq

/-- `&chunkedIntDecoder{}` -/
def emptyDec : DecB :=
  { d := { file := false, data := [], startOffset := 0, dataStartOffset := 0, chunkOffsets := [] },
    dataNil := true, offsTail := [], curChunkBytes := [], uncompressed := [], uncTail := [], r := none }

/-- the loop `for i := 0; i < int(numChunks); i++ { …; rv.chunkOffsets[i], read = binary.Uvarint(…) }`
    (intdecoder.go:59-66) over the (re)sliced array `arr`: element `i` is OVERWRITTEN -/
def fillOffsets (file : Bool) (data : Bytes) (offset : Nat) :
    Nat → Nat → Nat → List Nat → Res (List Nat × Nat)
  | 0, _, n, arr => .ok (arr, n)
  | k + 1, i, n, arr =>
    match Data.read file data ((offset + n) % two64) ((offset + n + 10) % two64) with
    | .ok w =>
      let (v, read) := uvarintU64 w
      fillOffsets file data offset k (i + 1) ((n + read) % two64) (arr.set i v)
    | .err => .err
    | .panic => .panic

/-- `newChunkedIntDecoder(data, offset, rv)` (intdecoder.go:34-69).  With `rv = nil` the code
    starts from `&chunkedIntDecoder{}`, i.e. from `emptyDec`: one code path for both.
    `cap(rv.chunkOffsets) >= int(numChunks)`: reslice (the first `numChunks` elements keep their
    stale values), else `make` (zeros).  A negative `int(numChunks)` panics in the reslice. -/
def newDecB (file : Bool) (data : Bytes) (offset : Nat) (rv : Option DecB) : Res DecB := do
  let rv := rv.getD emptyDec
  let (numChunks, n) ←
    (if offset = 0 then (.ok (0, 0) : Res (Nat × Nat))
     else
      match Data.read file data (offset % two64) ((offset + 10) % two64) with
      | .ok w => .ok (uvarintU64 w)
      | .err => .err
      | .panic => .panic)
  if two63 ≤ numChunks then .panic
  else
    let arr := rv.d.chunkOffsets ++ rv.offsTail
    let sl := if numChunks ≤ arr.length then arr.take numChunks else List.replicate numChunks 0
    let (offs, n) ← fillOffsets file data offset numChunks 0 n sl
    return { rv with
      d := { file, data, startOffset := offset, dataStartOffset := (offset + n) % two64,
             chunkOffsets := offs },
      dataNil := false,
      offsTail := arr.drop numChunks }

/-- `reset()` (intdecoder.go:104-117): lengths to zero (the arrays and what they hold stay),
    `data = nil`, the `memUvarintReader` - if there is one - onto the nil slice -/
def DecB.reset (b : DecB) : DecB :=
  { b with
    d := { b.d with startOffset := 0, dataStartOffset := 0, chunkOffsets := [] },
    dataNil := true,
    offsTail := b.d.chunkOffsets ++ b.offsTail,
    curChunkBytes := [],
    uncompressed := [],
    uncTail := b.uncompressed ++ b.uncTail,
    r := b.r.map (fun _ => ⟨[], 0⟩) }

/-- `isNil()`: `d.curChunkBytes == nil || len(d.curChunkBytes) == 0` -/
def DecB.isNil (b : DecB) : Bool := b.curChunkBytes.isEmpty

/-- `loadChunk(chunk)` (intdecoder.go:71-102), `chunk ≥ 0`.
    `startOffset == termNotEncoded`: a NEW empty reader; `curChunkBytes` is NOT touched.
    Otherwise `ZSTDDecompress(d.uncompressed[:cap], src)` = `DecodeAll(src, dst[:0])` writes the
    decompressed bytes over the front of the backing array (or allocates), `curChunkBytes` and the
    reader are pointed at the result. -/
def DecB.loadChunk (K : Codec) (b : DecB) (chunk : Nat) : Res DecB :=
  if b.d.startOffset = 0 then .ok { b with r := some ⟨[], 0⟩ }
  else if chunk ≥ b.d.chunkOffsets.length then .err
  else if b.dataNil then .panic                     -- d.data.Read on a nil *segment.Data
  else
    match Decoder.loadChunk K b.d chunk with
    | .ok bytes =>
      .ok { b with uncompressed := bytes,
                   uncTail := (b.uncompressed ++ b.uncTail).drop bytes.length,
                   curChunkBytes := bytes,
                   r := some ⟨bytes, 0⟩ }
    | .err => .err
    | .panic => .panic

/-- `d.r` dereferenced (`readUvarint`, `SkipUvarint`, `SkipBytes`, `Len`) -/
def DecB.rd (b : DecB) : Res Rd :=
  match b.r with
  | some r => .ok r
  | none => .panic

/-! ## `PostingsIterator` -/

/-- what `PostingsList.iterator` reads of the `PostingsList` and of its segment -/
structure PLB where
  cs : Nat                      -- p.chunkSize
  freqOffset : Nat
  locOffset : Nat
  file : Bool                   -- p.sb.data: file- or memory-backed …
  data : Bytes                  -- … and its bytes
  fieldsInv : List Bytes        -- p.sb.fieldsInv
  docs : List Nat               -- p.postings (ascending)
  except : Option (List Nat)    -- p.except
deriving Repr

structure ItB where
  cs : Nat
  freqOffset : Nat
  locOffset : Nat
  file : Bool
  data : Bytes
  fieldsInv : List Bytes
  all : List Nat
  act : List Nat
  clean : Bool                  -- i.postings.postings == i.ActualBM
  currChunk : Nat
  fnR : Option DecB             -- freqNormReader (`none` = nil pointer)
  lcR : Option DecB             -- locReader
  nextLocsCap : Nat             -- cap(i.nextLocs)
  fl : RFlags
deriving Repr

/-- `rv.freqNormReader` as it is handed to `newChunkedIntDecoder`: nil for a fresh iterator, else
    the old decoder after `reset()` (posting.go:145-148, 162) -/
def keptFn : Option ItB → Option DecB
  | none => none
  | some u => u.fnR.map DecB.reset

/-- `rv.locReader` likewise (posting.go:150-153, 163) -/
def keptLc : Option ItB → Option DecB
  | none => none
  | some u => u.lcR.map DecB.reset

/-- `cap(rv.nextLocs[:0])` (posting.go:155, 165) -/
def keptCap : Option ItB → Nat
  | none => 0
  | some u => u.nextLocsCap

/-- `if include… { rv.…Reader, err = newChunkedIntDecoder(p.sb.data, offset, rv.…Reader) }`
    (posting.go:192-208); otherwise the slot keeps what the reset left in it -/
def newSlot (on : Bool) (file : Bool) (data : Bytes) (offset : Nat) (old : Option DecB) :
    Res (Option DecB) :=
  if on then (newDecB file data offset old) >>= fun b => .ok (some b) else .ok old

/-- `PostingsList.iterator(includeFreq, includeNorm, includeLocs, rv)` (posting.go:140-218) for a
    general (non 1-hit) list with a non-nil bitmap.  `rv = some used`: the struct is cleared except
    for the two decoders (both `reset()`), `nextLocs[:0]`, `nextSegmentLocs[:0]`, `buf`.
    `fl` is `RFlags.of` of the three booleans. -/
def iteratorB (p : PLB) (fl : RFlags) (rv : Option ItB) : Res ItB := do
  let fnR ← newSlot fl.incFN p.file p.data p.freqOffset (keptFn rv)
  let lcR ← newSlot fl.incL p.file p.data p.locOffset (keptLc rv)
  return { cs := p.cs, freqOffset := p.freqOffset, locOffset := p.locOffset, file := p.file,
           data := p.data, fieldsInv := p.fieldsInv,
           all := p.docs,
           act := (match p.except with
             | none => p.docs
             | some e => p.docs.filter (fun d => !e.contains d)),
           clean := p.except.isNone,
           currChunk := 0, fnR := fnR, lcR := lcR, nextLocsCap := keptCap rv, fl := fl }

def mkB (p : PLB) (fl : RFlags) : Res ItB := iteratorB p fl none

def mkBReuse (used : ItB) (p : PLB) (fl : RFlags) : Res ItB := iteratorB p fl (some used)

/-- `d.loadChunk(chunk)` through a possibly nil `*chunkedIntDecoder`, under a flag -/
def optLoad (K : Codec) (on : Bool) (d : Option DecB) (chunk : Nat) : Res (Option DecB) :=
  if on then
    match d with
    | none => .panic
    | some b => (b.loadChunk K chunk) >>= fun b' => .ok (some b')
  else .ok d

/-- `PostingsIterator.loadChunk` (posting.go:352-369); `chunk = int(nChunk)` for a `uint32` -/
def loadChunkB (K : Codec) (i : ItB) (chunk : Nat) : Res ItB := do
  let fnR ← optLoad K i.fl.incFN i.fnR chunk
  let lcR ← optLoad K i.fl.incL i.lcR chunk
  return { i with fnR := fnR, lcR := lcR, currChunk := chunk }

/-- `i.currChunk != nChunk || i.freqNormReader.isNil()` (short-circuit; `isNil` on a nil decoder
    dereferences it) -/
def needLoadB (i : ItB) (c : Nat) : Res Bool :=
  if i.currChunk != c then .ok true
  else
    match i.fnR with
    | none => .panic
    | some b => .ok b.isNil

/-- `if i.currChunk != nChunk || i.freqNormReader.isNil() { i.loadChunk(int(nChunk)) }` -/
def ensureB (K : Codec) (i : ItB) (c : Nat) : Res ItB := do
  let nl ← needLoadB i c
  if nl then loadChunkB K i c else return i

/-- the rest of `currChunkNext` (posting.go:644-669): `skipFreqNormReadHasLocs`, and with
    `includeLocs && hasLocs` read `numLocsBytes` and `SkipBytes` -/
def consumeB (i : ItB) : Res ItB :=
  match i.fnR with
  | none => .panic
  | some fb => do
    let r ← fb.rd
    let (hasLocs, r') ← skipFreqNormReadHasLocs r
    let i := { i with fnR := some { fb with r := some r' } }
    if i.fl.incL && hasLocs then
      match i.lcR with
      | none => .panic
      | some lb => do
        let lr ← lb.rd
        let lr' ← skipLocs lr
        return { i with lcR := some { lb with r := some lr' } }
    else return i

def currChunkNextB (K : Codec) (i : ItB) (c : Nat) : Res ItB := do
  let i ← ensureB K i c
  consumeB i

/-- the `for allN != n` loop (posting.go:568-578); `all.Next()` on an exhausted iterator is a
    fault -/
def exclLoopB (K : Codec) (n nChunk : Nat) : ItB → Nat → List Nat → Res (ItB × List Nat)
  | i, allN, rest =>
    if allN == n then .ok (i, rest) else
    match (if i.fl.incFN && allN ≥ nChunk * i.cs then currChunkNextB K i nChunk else .ok i) with
    | .ok i' =>
      match rest with
      | [] => .panic
      | a :: r => exclLoopB K n nChunk i' a r
    | .err => .err
    | .panic => .panic

/-- `Iter.cleanLoop` by structural recursion (so that it evaluates in the kernel) -/
def cleanLoopB (cs d : Nat) : Nat → Nat → Nat → List Nat → (Nat × Nat × Nat × List Nat)
  | n, nChunk, same, [] => (n, nChunk, same, [])
  | n, nChunk, same, m :: r =>
    if n < d then
      let c' := m / cs
      cleanLoopB cs d m c' (if c' != nChunk then 0 else same + 1) r
    else (n, nChunk, same, m :: r)

/-- `for j := 0; j < sameChunkNexts; j++ { i.currChunkNext(nChunk) }` -/
def repeatSkipB (K : Codec) : Nat → ItB → Nat → Res ItB
  | 0, i, _ => .ok i
  | k + 1, i, c =>
    match currChunkNextB K i c with
    | .ok i' => repeatSkipB K k i' c
    | .err => .err
    | .panic => .panic

/-- `nextDocNumAtOrAfter` / `nextDocNumAtOrAfterClean` (posting.go:527-642) -/
def nextDocB (K : Codec) (i : ItB) (d : Nat) : Res (Option Nat × ItB) :=
  match i.act with
  | [] => .ok (none, i)
  | n0 :: r0 =>
  if i.clean then
    if !i.fl.incFN then
      match i.act.dropWhile (· < d) with
      | [] => .ok (none, { i with act := [], all := [] })
      | n :: r => .ok (some n, { i with act := r, all := r })
    else
      match cleanLoopB i.cs d n0 (n0 / i.cs) 0 r0 with
      | (n, nChunk, same, rest) =>
        if n < d then .ok (none, { i with act := rest, all := rest })
        else
          match repeatSkipB K same { i with act := rest, all := rest } nChunk with
          | .ok i =>
            (match ensureB K i nChunk with
             | .ok i => .ok (some n, i)
             | .err => .err
             | .panic => .panic)
          | .err => .err
          | .panic => .panic
  else
    match i.act.dropWhile (· < d) with
    | [] => .ok (none, { i with act := [] })
    | n :: r =>
      match i.all with
      | [] => .panic
      | allN :: arest =>
        match exclLoopB K n (n / i.cs) { i with act := r } allN arest with
        | .ok (j, arest') =>
          if j.fl.incFN then
            (match ensureB K { j with all := arest' } (n / i.cs) with
             | .ok i => .ok (some n, i)
             | .err => .err
             | .panic => .panic)
          else .ok (some n, { j with all := arest' })
        | .err => .err
        | .panic => .panic

/-- the location loop of `nextAtOrAfter` (posting.go:510-519, 422-450) including the body of
    `readLocation` after its four reads: `l.field = i.postings.sb.fieldsInv[fieldID]` (index out of
    range panics).  `cap = len(i.nextLocs) = freq`; `acc` is `rv.locs`.  Fuel as in
    `ChunkBytes.readLocsLoop`. -/
def readLocsLoopB (finv : List Bytes) :
    Nat → Nat → Nat → Nat → Nat → Rd → List Loc → Res (List Loc × Rd)
  | 0, _, _, _, _, _, _ => .panic
  | fuel + 1, cap, start, nlb, j, r, acc =>
    if start - r.len < nlb then
      if j < cap then
        match readLocation r with
        | .ok (l, r') =>
          match finv[l.fieldID]? with
          | some f =>
            readLocsLoopB finv fuel cap start nlb (j + 1) r'
              (acc ++ [{ field := f, pos := l.pos, start := l.start, stop := l.stop }])
          | none => .panic
        | .err => .err
        | .panic => .panic
      else .panic
    else .ok (acc, r)

def readLocsB (finv : List Bytes) (freq : Nat) (r : Rd) : Res (List Loc × Rd) := do
  let (numLocsBytes, r) ← r.readUvarint
  if numLocsBytes < two63 then
    readLocsLoopB finv (numLocsBytes + 1) freq r.len numLocsBytes 0 r []
  else return ([], r)

/-- `nextAtOrAfter` after `nextDocNumAtOrAfter` has found `n` (posting.go:466-523) -/
def deliverB (i : ItB) (n : Nat) : Res (Option Posting × ItB) :=
  if !i.fl.incFN then .ok (some { doc := n, freq := 0, norm := 0, locs := [] }, i) else
  match i.fnR with
  | none => .panic
  | some fb => do
    let r ← fb.rd
    let (fnl, r') ← readFreqNormHasLocs r
    let i := { i with fnR := some { fb with r := some r' } }
    if i.fl.incL && fnl.2.2 then
      match i.lcR with
      | none => .panic
      | some lb => do
        let lr ← lb.rd
        let (locs, lr') ← readLocsB i.fieldsInv fnl.1 lr
        return (some { doc := n, freq := fnl.1, norm := fnl.2.1 % 2 ^ 32, locs := locs },
                { i with lcR := some { lb with r := some lr' },
                         nextLocsCap := if i.nextLocsCap ≥ fnl.1 then i.nextLocsCap else fnl.1 * 2 })
    else return (some { doc := n, freq := fnl.1, norm := fnl.2.1 % 2 ^ 32, locs := [] }, i)

/-- `Next` / `Advance` -/
def stepB (K : Codec) (i : ItB) (op : IterOp) : Res (Option Posting × ItB) :=
  let d := match op with
    | .next => 0
    | .advance d => d
  match nextDocB K i d with
  | .ok (none, i) => .ok (none, i)
  | .ok (some n, i) => deliverB i n
  | .err => .err
  | .panic => .panic

/-- run a script; a fault ends the transcript -/
def runB (K : Codec) : ItB → List IterOp → List (Res (Option Posting))
  | _, [] => []
  | i, op :: ops =>
    match stepB K i op with
    | .ok (r, i') => .ok r :: runB K i' ops
    | .err => [.err]
    | .panic => [.panic]

/-! ## the writer side of one term, as `writePostings` lays it out -/

/-- the bytes `tfEncoder.writeAt(w)` and `locEncoder.writeAt(w)` put behind `pre`, with the two
    offsets they return (write.go:73-84) -/
def layout (pre : Bytes) (tf' lc' : Coder) (suf : Bytes) : Nat × Nat × Bytes :=
  let w1 := tf'.writeAt pre.length
  let w2 := lc'.writeAt (pre.length + w1.2.1.length)
  (w1.1, w2.1, pre ++ w1.2.1 ++ w2.2.1 ++ suf)

end Ice.Model.IterBytes
