import IceModel.Model.Builder
import IceModel.Bridge.PoolReset
/-
  Model of the sync.Pool reuse of the builder's working object (property C14).

    interimPool / newWithChunkMode (new.go:40-84, 112)  ↦ `Pool`, `Pool.get`, `newWith`, `recycle`
    type interim (new.go:116-177)                        ↦ `PoolObj` (the fields that survive a build)
    reset (new.go:179-224)                               ↦ `reset` = `resetWith resetActs` (the plan of
                                                           IceModel/Bridge/PoolReset.lean, interpreted)
    convert, the re-slice `IncludeDocValues[:n]` (273-277) ↦ `initFieldsFrom`
    getOrDefineField, `DictKeys[:n+1]` (326-332)         ↦ `extendKeys` (capacity book-keeping, see below)
    prepareDicts, the re-slices (351-398)                ↦ `prepareDictsFrom`
    everything after prepareDicts                        ↦ `finish` (the functions of Model/Builder.lean)

  A Go slice is a `GoSlice`: the whole backing array (`cap = backing.length`) and a length.  Cells at
  and beyond `len` are STALE: they hold whatever an earlier build left there and become visible again
  when the slice is re-sliced upwards (`s[:n]`, `n ≤ cap`).  `Model/Builder.lean` starts from the
  state of a fresh `&interim{}`; here the build starts from an arbitrary `PoolObj`:

    * the content-level state `Builder.St` is initialised from the visible part of the object
      (`St.ofObj`), so an object that was NOT properly reset (`reset_v0`, …) leaks into the build
      exactly as in Go;
    * at the five places where Go re-slices upwards the model takes the reused backing array, stale
      cells included: `IncludeDocValues` (new.go:273), `Postings` (351, 355 copies the old bitmaps),
      `FreqNorms`/`Locs` (364, 382: stale slice headers), `freqNormsBacking`/`locsBacking` (370,
      388).  The windows are carved with `cap = cap(backing) - off` (378, 396), which is LARGER than
      in a fresh build when the reused array has spare capacity;
    * slices that are only ever extended by `append` (`FieldsInv`, `Dicts`, `DictKeys` and its inner
      key slices, `numTermsPerPostingsList`, `numLocsPerPostingsList`) cannot expose stale cells
      (`append` never reads beyond `len`); their content is the one of `Builder.St`, and their shape
      (backing array, capacity, stale tail) after the build is replayed from the content by
      `GoSlice.refill` / `harvestKeys`.  `DictKeys[:n+1]; DictKeys[n] = DictKeys[n][:0]` (new.go:328)
      re-uses the inner slice's backing array with length 0: `extendKeys`.

  The byte buffers (`builderBuf`, `metaBuf`, `tmp0`, `tmp1`) are only lengths and capacities: their
  users work on the byte level, which this entry-level model does not have (`grabBuf` (new.go:226,
  645) hands out `tmp0[0:10]` with stale bytes, every use is `n := PutUvarint(buf, x); w.Write(buf[:n])`;
  `tmp0[:0]`, `tmp1[:0]` (563) and the two `bytes.Buffer`s are appended to after a truncation).  How
  many bytes a build leaves in them, and the output size remembered in `lastOutSize`, is left
  unspecified (`byteSizes`); `lastNumDocs`/`lastOutSize` only size `br.Grow` (new.go:47-57).
  `reset` is total: `vellum.Builder.Reset` (new.go:215) can only fail when writing to the
  `bytes.Buffer` fails, which it never does.
-/
namespace Ice.Model.Pool
open Ice Ice.Spec Ice.Model.Builder

/-! ### Go slices -/

structure GoSlice (α : Type) where
  backing : List α := []
  len : Nat := 0
deriving Repr, DecidableEq

/-- `append` growth (runtime.growslice without the rounding to size classes): nothing depends on
    the value -/
def growCap (oldCap need : Nat) : Nat :=
  if need > 2 * oldCap then need
  else if oldCap < 256 then 2 * oldCap
  else oldCap + (oldCap + 768) / 4

namespace GoSlice
variable {α : Type}

def cap (s : GoSlice α) : Nat := s.backing.length

/-- the visible part `s[0:len]` -/
def content (s : GoSlice α) : List α := s.backing.take s.len

/-- the nil slice -/
def nil : GoSlice α := {}

/-- `s[:0]` -/
def truncate0 (s : GoSlice α) : GoSlice α := { s with len := 0 }

/-- `s[:n]`, legal when `n ≤ cap` -/
def reslice (s : GoSlice α) (n : Nat) : GoSlice α := { s with len := n }

/-- `for i := range s { s[i] = f(s[i]) }` -/
def mapElems (f : α → α) (s : GoSlice α) : GoSlice α :=
  { s with backing := s.content.map f ++ s.backing.drop s.len }

/-- `make([]T, n)` -/
def make (zero : α) (n : Nat) : GoSlice α := { backing := List.replicate n zero, len := n }

/-- `append(s, x)` -/
def append (zero : α) (s : GoSlice α) (x : α) : GoSlice α :=
  if s.len < s.cap then { backing := s.backing.set s.len x, len := s.len + 1 }
  else { backing := s.content ++ [x] ++ List.replicate (growCap s.cap (s.len + 1) - (s.len + 1)) zero,
         len := s.len + 1 }

/-- the slice after its content has been built by successive appends from length 0 and updated in
    place to `l` -/
def refill (zero : α) (s : GoSlice α) (l : List α) : GoSlice α := l.foldl (append zero) s.truncate0

/-- the slice after in-place updates (`s[i] = x`, `i < len`) changed its content to `l` -/
def withContent (s : GoSlice α) (l : List α) : GoSlice α :=
  { backing := l ++ s.backing.drop l.length, len := l.length }

/-- `if cap(s) >= n { s = s[:n] } else { s = make([]T, n) }` (new.go:273, 364, 370, 382, 388): within
    capacity the old array is re-used WITHOUT being cleared -/
def reuseOrMake (zero : α) (s : GoSlice α) (n : Nat) : GoSlice α :=
  if s.cap ≥ n then s.reslice n else make zero n

end GoSlice

/-! ### the pooled object -/

/-- a byte buffer: length and capacity -/
structure Buf where
  len : Nat := 0
  cap : Nat := 0
deriving Repr, DecidableEq, Inhabited

def Buf.trunc (b : Buf) : Buf := { b with len := 0 }
def Buf.used (b : Buf) (n : Nat) : Buf := { len := n, cap := max b.cap n }

/-- byte sizes the entry-level model cannot compute -/
structure ByteSizes where
  builderBuf : Nat
  metaBuf : Nat
  tmp0 : Nat
  tmp1 : Nat
  out : Nat
deriving Inhabited

/-- what a build leaves in the byte buffers and how long its output is: unspecified -/
opaque byteSizes (nc : Bytes → Nat → Nat) (b : Batch) : ByteSizes

/-- the fields of `interim` (new.go:116-177) that survive a build.  `results`, `chunkMode`, `w`,
    `FieldsMap`, `FieldDocs`, `FieldFreqs`, `normCalc` are assigned unconditionally at the top of
    newWithChunkMode / convert (`Ice.Gen.PoolReset.remade`). -/
structure PoolObj where
  fieldsInv : GoSlice Bytes := {}
  dicts : GoSlice (AMap Bytes Nat) := {}          -- a nil map is the empty map
  dictKeys : GoSlice (GoSlice Bytes) := {}
  includeDV : GoSlice Bool := {}
  postings : GoSlice (List Nat) := {}             -- no slot is nil: new.go:356-360 fills a made array
  freqNorms : GoSlice (Slice FreqNorm) := {}      -- slice headers
  fnBacking : GoSlice FreqNorm := {}
  locs : GoSlice (Slice ILoc) := {}
  locBacking : GoSlice ILoc := {}
  numTerms : GoSlice Nat := {}
  numLocs : GoSlice Nat := {}
  builder : Bool := false                         -- `s.builder != nil`
  builderBuf : Buf := {}
  metaBuf : Buf := {}
  tmp0 : Buf := {}
  tmp1 : Buf := {}
  lastNumDocs : Nat := 0
  lastOutSize : Nat := 0

/-- `&interim{}` (new.go:112) -/
def PoolObj.fresh : PoolObj := {}

/-! ### reset (new.go:179-224) -/

inductive Fld where
  | results | chunkMode | w | FieldsMap | FieldsInv | Dicts | DictKeys | IncludeDocValues | Postings
  | FreqNorms | freqNormsBacking | Locs | locsBacking | numTermsPerPostingsList
  | numLocsPerPostingsList | builderBuf | builder | metaBuf | tmp0 | tmp1 | lastNumDocs | lastOutSize
deriving DecidableEq, Repr

inductive Act where
  | nil | zero | zeroElems | truncElems | callElemsClear | trunc | callReset
deriving DecidableEq, Repr

def Fld.name : Fld → String
  | .results => "results" | .chunkMode => "chunkMode" | .w => "w" | .FieldsMap => "FieldsMap"
  | .FieldsInv => "FieldsInv" | .Dicts => "Dicts" | .DictKeys => "DictKeys"
  | .IncludeDocValues => "IncludeDocValues" | .Postings => "Postings" | .FreqNorms => "FreqNorms"
  | .freqNormsBacking => "freqNormsBacking" | .Locs => "Locs" | .locsBacking => "locsBacking"
  | .numTermsPerPostingsList => "numTermsPerPostingsList"
  | .numLocsPerPostingsList => "numLocsPerPostingsList" | .builderBuf => "builderBuf"
  | .builder => "builder" | .metaBuf => "metaBuf" | .tmp0 => "tmp0" | .tmp1 => "tmp1"
  | .lastNumDocs => "lastNumDocs" | .lastOutSize => "lastOutSize"

def Act.name : Act → String
  | .nil => "nil" | .zero => "zero" | .zeroElems => "zero-elems" | .truncElems => "trunc-elems"
  | .callElemsClear => "call-elems:Clear" | .trunc => "trunc" | .callReset => "call:Reset"

/-- one statement of reset(); `none` = the model has no meaning for this action on this field -/
def applyAct (o : PoolObj) : Fld → Act → Option PoolObj
  -- not part of the pooled state: re-made by every build
  | .results, .nil | .chunkMode, .zero | .w, .nil | .FieldsMap, .nil => some o
  | .FieldsInv, .nil => some { o with fieldsInv := GoSlice.nil }
  | .Dicts, .zeroElems => some { o with dicts := o.dicts.mapElems (fun _ => []) }
  | .Dicts, .trunc => some { o with dicts := o.dicts.truncate0 }
  | .DictKeys, .truncElems => some { o with dictKeys := o.dictKeys.mapElems GoSlice.truncate0 }
  | .DictKeys, .trunc => some { o with dictKeys := o.dictKeys.truncate0 }
  | .IncludeDocValues, .zeroElems => some { o with includeDV := o.includeDV.mapElems (fun _ => false) }
  | .IncludeDocValues, .trunc => some { o with includeDV := o.includeDV.truncate0 }
  | .Postings, .callElemsClear => some { o with postings := o.postings.mapElems (fun _ => []) }
  | .Postings, .trunc => some { o with postings := o.postings.truncate0 }
  | .FreqNorms, .trunc => some { o with freqNorms := o.freqNorms.truncate0 }
  | .freqNormsBacking, .zeroElems => some { o with fnBacking := o.fnBacking.mapElems (fun _ => default) }
  | .freqNormsBacking, .trunc => some { o with fnBacking := o.fnBacking.truncate0 }
  | .Locs, .trunc => some { o with locs := o.locs.truncate0 }
  | .locsBacking, .zeroElems => some { o with locBacking := o.locBacking.mapElems (fun _ => default) }
  | .locsBacking, .trunc => some { o with locBacking := o.locBacking.truncate0 }
  | .numTermsPerPostingsList, .trunc => some { o with numTerms := o.numTerms.truncate0 }
  | .numLocsPerPostingsList, .trunc => some { o with numLocs := o.numLocs.truncate0 }
  | .builderBuf, .callReset => some { o with builderBuf := o.builderBuf.trunc }
  | .builder, .callReset => some o              -- vellum.Builder.Reset: internal to vellum
  | .metaBuf, .callReset => some { o with metaBuf := o.metaBuf.trunc }
  | .tmp0, .trunc => some { o with tmp0 := o.tmp0.trunc }
  | .tmp1, .trunc => some { o with tmp1 := o.tmp1.trunc }
  | .lastNumDocs, .zero => some { o with lastNumDocs := 0 }
  | .lastOutSize, .zero => some { o with lastOutSize := 0 }
  | _, _ => none

abbrev Plan := List (Fld × List Act)

def applyActs (o : PoolObj) (f : Fld) : List Act → Option PoolObj
  | [] => some o
  | a :: r => match applyAct o f a with
    | some o' => applyActs o' f r
    | none => none

def interp : Plan → PoolObj → Option PoolObj
  | [], o => some o
  | (f, as) :: r, o => match applyActs o f as with
    | some o' => interp r o'
    | none => none

/-- reset() as pinned in `Ice.Bridge.resetPlan` (generated from /repo by icefacts) -/
def resetActs : Plan :=
  [(.results, [.nil]), (.chunkMode, [.zero]), (.w, [.nil]), (.FieldsMap, [.nil]), (.FieldsInv, [.nil]),
   (.Dicts, [.zeroElems, .trunc]), (.DictKeys, [.truncElems, .trunc]),
   (.IncludeDocValues, [.zeroElems, .trunc]), (.Postings, [.callElemsClear, .trunc]),
   (.FreqNorms, [.trunc]), (.freqNormsBacking, [.zeroElems, .trunc]), (.Locs, [.trunc]),
   (.locsBacking, [.zeroElems, .trunc]), (.numTermsPerPostingsList, [.trunc]),
   (.numLocsPerPostingsList, [.trunc]), (.builderBuf, [.callReset]), (.builder, [.callReset]),
   (.metaBuf, [.callReset]), (.tmp0, [.trunc]), (.tmp1, [.trunc]), (.lastNumDocs, [.zero]),
   (.lastOutSize, [.zero])]

def Plan.names (p : Plan) : List (String × List String) := p.map (fun x => (x.1.name, x.2.map Act.name))

/-- a reset() following `plan`; a plan the model cannot interpret leaves the object untouched -/
def resetWith (plan : Plan) (o : PoolObj) : PoolObj := (interp plan o).getD o

/-- new.go:179-224 -/
def reset : PoolObj → PoolObj := resetWith resetActs

/-- `plan` with the actions of field `f` replaced -/
def Plan.replace (p : Plan) (f : Fld) (as : List Act) : Plan :=
  p.map (fun x => if x.1 = f then (f, as) else x)

/-- reset() without the loop new.go:193-195 (`IncludeDocValues[i] = false`) -/
def reset_v0 : PoolObj → PoolObj := resetWith (resetActs.replace .IncludeDocValues [.trunc])

/-- reset() without the loop new.go:197-199 (`idn.Clear()`) -/
def reset_v1 : PoolObj → PoolObj := resetWith (resetActs.replace .Postings [.trunc])

/-! ### the build starting from a pooled object -/

/-- what the builder sees of the object it got from the pool.  Only the slices convert extends by
    `append` start from their old content; `IncludeDocValues`, `Postings`, `FreqNorms`, `Locs` and the two
    backing arrays are assigned (re-sliced or made, new.go:273-277, 351-392) before anything reads
    them, see `initFieldsFrom` and `prepareDictsFrom`. -/
def St.ofObj (o : PoolObj) : St :=
  { fieldsInv := o.fieldsInv.content,
    dicts := o.dicts.content,
    dictKeys := o.dictKeys.content.map GoSlice.content,
    numTerms := o.numTerms.content, numLocs := o.numLocs.content }

/-- new.go:253-277; returns the state and the slice `IncludeDocValues` -/
def initFieldsFrom (o : PoolObj) (b : Batch) : M (St × GoSlice Bool) :=
  let s := (getOrDefineField (St.ofObj o) idField).1
  let s := b.foldl (fun s d => d.foldl (fun s f => (getOrDefineField s f.name).1) s) s
  match s.fieldsInv with
  | [] => .error (.slice 267)
  | h :: r =>
    let inv := h :: sortS r
    -- new.go:273-277
    let dv := o.includeDV.reuseOrMake false inv.length
    .ok ({ s with fieldsInv := inv, fieldsMap := rebuildMap s.fieldsMap 0 inv,
                  includeDV := dv.content }, dv)

/-- the slices prepareDicts re-slices or makes -/
structure Carved where
  post : GoSlice (List Nat)
  fnW : GoSlice (Slice FreqNorm)
  fnB : GoSlice FreqNorm
  locW : GoSlice (Slice ILoc)
  locB : GoSlice ILoc

/-- new.go:351-362: within capacity the old bitmaps are re-used; otherwise a larger array is made, the
    old bitmaps are copied over (`copy(postings, s.Postings[:cap(s.Postings)])`) and the missing ones
    allocated -/
def reusePostings (g : GoSlice (List Nat)) (n : Nat) : GoSlice (List Nat) :=
  if g.cap ≥ n then g.reslice n
  else { backing := g.backing ++ List.replicate (n - g.cap) [], len := n }

/-- new.go:339-399 on the object `o` -/
def prepareDictsFrom (o : PoolObj) (s : St) (b : Batch) : M (St × Carved) :=
  match foldlE prepDoc (s, {}) b with
  | .error e => .error e
  | .ok (s, t) =>
    let n := t.pidNext
    -- new.go:351-362: `copy` keeps the old bitmaps, the missing ones are allocated
    let post := reusePostings o.postings n
    -- new.go:364-368 (`make` gives nil slices)
    let fnW := o.freqNorms.reuseOrMake (.own []) n
    -- new.go:370-374
    let fnB := o.fnBacking.reuseOrMake default t.totTFs
    -- new.go:376-380: `freqNormsBacking[0:0]` has the capacity of the whole array
    match carve 378 fnW.content 0 t.totTFs fnB.cap 0 s.numTerms with
    | .error e => .error e
    | .ok fw =>
      -- new.go:382-386
      let locW := o.locs.reuseOrMake (.own []) n
      -- new.go:388-392
      let locB := o.locBacking.reuseOrMake default t.totLocs
      -- new.go:394-398
      match carve 396 locW.content 0 t.totLocs locB.cap 0 s.numLocs with
      | .error e => .error e
      | .ok lw =>
        .ok ({ s with postings := post.content,
                      fnWins := fw, fnBacking := fnB.backing,
                      locWins := lw, locBacking := locB.backing },
             { post := post, fnW := fnW, fnB := fnB, locW := locW, locB := locB })

/-- new.go:281-315: everything after prepareDicts, with the functions of Model/Builder.lean;
    returns the result and the final state -/
def finish (nc : Bytes → Nat → Nat)
    (π : Nat → Nat → List (Bytes × TokFreq) → List (Bytes × TokFreq)) (b : Batch) (s : St) :
    M (Built × St) :=
  match processDocuments false nc π (sortKeys s) b with
  | .error e => .error e
  | .ok s =>
    match writeStoredFields s b with
    | .error e => .error e
    | .ok (s, stored) =>
      match (if b.length > 0 then writeDicts s b.length
             else .ok (List.replicate s.fieldsInv.length {})) with
      | .error e => .error e
      | .ok outs =>
        match mapE (resolveField s.fieldsInv) outs with
        | .error e => .error e
        | .ok views =>
          .ok ({ fields := s.fieldsInv,
                 fieldDocs := (List.range s.fieldsInv.length).map
                                (fun i => (aget s.fieldDocs (u16 i)).getD 0),
                 fieldFreqs := (List.range s.fieldsInv.length).map
                                (fun i => (aget s.fieldFreqs (u16 i)).getD 0),
                 stored := stored.map (fun l => l.map (fun p => (s.fieldsInv.getD p.1 [], p.2))),
                 dicts := views }, s)

/-- new.go:326-332: one more field in `DictKeys` -/
def extendKeys (g : GoSlice (GoSlice Bytes)) : GoSlice (GoSlice Bytes) :=
  if g.len < g.cap then
    { backing := g.backing.modify g.len GoSlice.truncate0, len := g.len + 1 }
  else g.append GoSlice.nil GoSlice.nil

def iter {α : Type} (f : α → α) : Nat → α → α
  | 0, a => a
  | n + 1, a => iter f n (f a)

/-- `DictKeys` after the build: extended field by field, every field's key slice re-filled -/
def harvestKeys (g : GoSlice (GoSlice Bytes)) (K : List (List Bytes)) : GoSlice (GoSlice Bytes) :=
  let g1 := iter extendKeys (K.length - g.len) g
  { backing := List.zipWith (fun inner ks => inner.refill [] ks) (g1.backing.take K.length) K ++
               g1.backing.drop K.length,
    len := K.length }

/-- the object as the build leaves it (before reset) -/
def harvest (nc : Bytes → Nat → Nat) (b : Batch) (o : PoolObj) (dv : GoSlice Bool) (cv : Carved)
    (s : St) : PoolObj :=
  let z := byteSizes nc b
  { fieldsInv := o.fieldsInv.refill [] s.fieldsInv,
    dicts := o.dicts.refill [] s.dicts,
    dictKeys := harvestKeys o.dictKeys s.dictKeys,
    includeDV := dv.withContent s.includeDV,
    postings := cv.post.withContent s.postings,
    freqNorms := cv.fnW.withContent s.fnWins,
    fnBacking := { backing := s.fnBacking, len := cv.fnB.len },
    locs := cv.locW.withContent s.locWins,
    locBacking := { backing := s.locBacking, len := cv.locB.len },
    numTerms := o.numTerms.refill 0 s.numTerms,
    numLocs := o.numLocs.refill 0 s.numLocs,
    builder := o.builder || decide (b.length > 0),        -- new.go:655
    builderBuf := o.builderBuf.used z.builderBuf,
    metaBuf := o.metaBuf.used z.metaBuf,
    tmp0 := o.tmp0.used z.tmp0,
    tmp1 := o.tmp1.used z.tmp1,
    lastNumDocs := o.lastNumDocs,
    lastOutSize := o.lastOutSize }

/-- `convert` (new.go:252) on the object `o`: the result and the object as the build leaves it -/
def buildFrom (o : PoolObj) (nc : Bytes → Nat → Nat)
    (π : Nat → Nat → List (Bytes × TokFreq) → List (Bytes × TokFreq)) (b : Batch) :
    M (Built × PoolObj) :=
  match initFieldsFrom o b with
  | .error e => .error e
  | .ok (s, dv) =>
    match prepareDictsFrom o s b with
    | .error e => .error e
    | .ok (s, cv) =>
      match finish nc π b s with
      | .error e => .error e
      | .ok (r, s) => .ok (r, harvest nc b o dv cv s)

/-- new.go:77-80: reset, remember the sizes, put back -/
def recycle (nc : Bytes → Nat → Nat) (b : Batch) (o : PoolObj) : PoolObj :=
  { reset o with lastNumDocs := b.length, lastOutSize := (byteSizes nc b).out }

/-! ### the pool, sequentially -/

/-- a pool holding at most one object (one goroutine calling `New` repeatedly) -/
abbrev Pool := Option PoolObj

/-- `interimPool.Get()`: the pooled object, or `New()` -/
def Pool.get : Pool → PoolObj
  | some o => o
  | none => PoolObj.fresh

/-- one earlier call of `New`: `returned = false` is a call that failed after convert (initSegmentBase,
    new.go:72-77) or panicked - its object is not put back -/
structure Attempt where
  nc : Bytes → Nat → Nat
  π : Nat → Nat → List (Bytes × TokFreq) → List (Bytes × TokFreq)
  b : Batch
  returned : Bool

/-- one call of newWithChunkMode (new.go:40-84): the result and the pool afterwards -/
def newWith (p : Pool) (nc : Bytes → Nat → Nat)
    (π : Nat → Nat → List (Bytes × TokFreq) → List (Bytes × TokFreq)) (b : Batch) (returned : Bool) :
    M Built × Pool :=
  match buildFrom p.get nc π b with
  | .error e => (.error e, none)
  | .ok (r, o) => (.ok r, if returned then some (recycle nc b o) else none)

def Pool.step (p : Pool) (a : Attempt) : Pool := (newWith p a.nc a.π a.b a.returned).2

/-- the pool after a history of calls, starting empty -/
def Pool.after (hist : List Attempt) : Pool := hist.foldl Pool.step none

/-! ### the pool, concurrently -/

/-- a builder's call of `New` -/
structure Job where
  nc : Bytes → Nat → Nat
  π : Nat → Nat → List (Bytes × TokFreq) → List (Bytes × TokFreq)
  b : Batch

/-- `get i k`: builder `i` takes the `k`-th pooled object (sync.Pool picks any; a fresh one if there
    is none); `done i returned`: builder `i` finishes its build on the object it holds.  Between the two
    events the object belongs to builder `i` alone (sync.Pool hands an object to one caller; `interim`
    is not shared otherwise), so the steps of different builds commute and the build is one event. -/
inductive Ev where
  | get (i k : Nat)
  | done (i : Nat) (returned : Bool)

structure Sys where
  pool : List PoolObj := []
  held : List (Nat × PoolObj) := []
  results : List (Nat × M Built) := []

def Sys.step (jobs : Nat → Job) (σ : Sys) : Ev → Sys
  | .get i k =>
    match σ.pool[k]? with
    | some o => { σ with pool := σ.pool.eraseIdx k, held := (i, o) :: σ.held }
    | none => { σ with held := (i, PoolObj.fresh) :: σ.held }
  | .done i returned =>
    match σ.held.find? (fun x => x.1 == i) with
    | none => σ
    | some (_, o) =>
      let held := σ.held.filter (fun x => x.1 != i)
      match buildFrom o (jobs i).nc (jobs i).π (jobs i).b with
      | .error e => { σ with held := held, results := (i, .error e) :: σ.results }
      | .ok (r, o') =>
        { pool := if returned then recycle (jobs i).nc (jobs i).b o' :: σ.pool else σ.pool,
          held := held, results := (i, .ok r) :: σ.results }

def Sys.run (jobs : Nat → Job) (evs : List Ev) : Sys := evs.foldl (Sys.step jobs) {}

end Ice.Model.Pool
