import IceModel.Model.Varint
import IceModel.Model.Bits
import IceModel.Model.Writer
import IceModel.Model.ChunkBytes
import IceModel.Model.Stored
import IceModel.Model.DocValues
import IceModel.Model.Dict
/-
  The CONTAINER: how the sections of an ice segment are laid out in one file and found again
  (property C04 on the byte level).

  Writer side
    interim.convert                   new.go:252-316    ↦ `serialize` (builder flag)
    interim.writeDicts                new.go:639-685    ↦ the `numDocs > 0` branch of `serializeWith`
    interim.writeDictsField           new.go:687-774    ↦ `writeField`
    interim.writeDictsTermField       new.go:776-858    ↦ `writeTerm`
    mergeToWriter                     merge.go:111-160  ↦ `serialize` (merger flag)
    persistMergedRest(+Field)         merge.go:185-342  ↦ the same branch / `writeField`
    prepareNewTerm, finishTerm        merge.go:435-504  ↦ `writeTerm`
    writeMergedDict, buildMergedDocVals, writeDvLocs    ↦ `writeField`, `dvIndexBytes`
    writePostings, writeRoaringWithLen write.go:57-153  ↦ `writeTerm`, `postingsRecord`
    persistFields                     write.go:160-199  ↦ `persistFields`
    persistFooter (Segment.WriteTo / mergeSegmentBasesWriter) ↦ `fileOf`
  Reader side
    load                              load.go:30-73     ↦ `load`
    loadFields                        load.go:75-135    ↦ `loadFields`
    loadStoredFieldChunk              load.go:138-168   ↦ `Stored.loadStoredFieldChunk` (reused)
    loadDvReaders                     segment.go:310-353 ↦ `loadDvReaders`
    Segment.dictionary                segment.go:129-175 ↦ `dictionaryOf`
    PostingsList.read                 posting.go:239-301 ↦ `readRecord`, `readPostings`

  What is a parameter: the three third-party codecs (`Codecs`: zstd, roaring, vellum) with their
  round-trip laws, and the CRC.  What is input: a *laid-out segment description* `LSeg`: for each
  field (in field-id order) its terms (ascending) with their postings at byte level, its doc
  values and statistics, and the stored content of the documents.  Both writers of ice produce the
  same layout from such a description except where flagged by `LSeg.merger`:
    * a doc-value column is written progressively by the merger (`mergeField`) and at once by the
      builder (`buildField`); the builder drops documents whose byte string is empty;
    * only the merger ever encodes a term as a "1-hit" FST value (`use1HitEncoding` is nil in the
      builder); whether a 1-hit-eligible term is so encoded depends on the merge history
      (`lastDocNum`, `lastFreq` of the last source segment enumerated), so it is part of the
      description (`TermDesc.oneHit`);
    * with no documents the builder leaves `docValueOffset = 0` (the zero value of
      `fdvIndexOffset`, new.go:293) and the merger `2^64-1` (merge.go:115).

  Every read goes through `DocValues.Data.read`, which is STRICT for both backings: a read that
  leaves the data section panics (memory-backed, capacity = length: the segment `New` returns) or
  fails (file-backed).  `load` cuts the data section off the file (`data.Slice(0, len-footerLen)`),
  so "the loader succeeds" contains the in-bounds statement: no look-ahead window reaches into or
  beyond the footer.  (`Stored.loadStoredFieldChunk` is the memory-backed variant: it reports an
  out-of-range read as `panic` also where the file-backed code would return an error.)

  Go `uint64` arithmetic is rendered on `Nat` with explicit wrap-around; `w.Count()` (an `int`) is
  the running length of what was written, converted by `u64`.  Core Lean only.
-/
namespace Ice.Model.Format
open Ice Ice.Model
open Ice.Model.Writer (be unbe Footer footerFields persistFooter parseFooter CRC)
open Ice.Model.ChunkBytes (Entry BLoc Coder tfAdds locAdds uvarintU64)
open Ice.Model.DocValues (add64 sub64 maxUint64)

deriving instance DecidableEq for DocValues.Data
deriving instance Repr for DocValues.Data

/-! ## parameters -/

/-- vellum's `Insert` fails on a key that is not above the previous one: the keys of an FST are
    strictly ascending from one to the next -/
def ascKeys : List Bytes → Bool
  | [] => true
  | [_] => true
  | a :: b :: r => Bytes.lt a b && ascKeys (b :: r)

/-- the third-party codecs and the checksum, each with the law ice relies on -/
structure Codecs where
  /-- zstd: `ZSTDCompress` / `ZSTDDecompress` (zstd.go) -/
  Z : Bytes → Bytes
  unZ : Bytes → Option Bytes
  rt : ∀ b, unZ (Z b) = some b
  z_nil : Z [] = []
  /-- roaring: `RunOptimize` + `ToBytes` / `FromBuffer`; a bitmap is its ascending list of members -/
  rEnc : List Nat → Bytes
  rDec : Bytes → Option (List Nat)
  r_rt : ∀ ds : List Nat, ds.Pairwise (· < ·) → (∀ d ∈ ds, d < 2 ^ 32) → rDec (rEnc ds) = some ds
  /-- vellum: `Builder.Insert`… `Close` / `Load`; an FST is its ascending list of (key, value) -/
  fstEnc : List (Bytes × Nat) → Bytes
  fstDec : Bytes → Option (List (Bytes × Nat))
  fst_rt : ∀ es : List (Bytes × Nat), ascKeys (es.map (·.1)) = true → (∀ e ∈ es, e.2 < 2 ^ 64) →
    fstDec (fstEnc es) = some es
  /-- CRC-32 (count.go) -/
  crc : CRC
  crc_lt : ∀ c b, crc.upd c b < 2 ^ 32

def Codecs.chunk (K : Codecs) : ChunkBytes.Codec := ⟨K.Z, K.unZ, K.rt, K.z_nil⟩
def Codecs.stored (K : Codecs) : Stored.Codec := ⟨K.Z, K.unZ, K.rt⟩
def Codecs.dv (K : Codecs) : DocValues.Codec := ⟨K.Z, K.unZ, K.rt, K.z_nil⟩

/-- `uint64(x)` of a non-negative `int` -/
def u64 (x : Nat) : Nat := x % two64

/-- `defaultDocumentChunkSize` (documentcoder.go) -/
def docBlock : Nat := 128
/-- `getChunkSize(legacyChunkMode, 0, 0)`: the chunk size of every doc-value column -/
def dvChunk : Nat := 1024

/-! ## input: a laid-out segment -/

/-- the postings of one term -/
inductive TermDesc where
  /-- merger only: one document, frequency 1, no locations, encoded into the FST value -/
  | oneHit (doc norm : Nat)
  /-- the postings in document order -/
  | general (entries : List Entry)
deriving Repr, DecidableEq

/-- what the two int coders are fed for the term (the merger feeds them also for a term that is
    then 1-hit encoded) -/
def TermDesc.entries : TermDesc → List Entry
  | .oneHit d n => [{ doc := d, freq := 1, norm := n, locs := [] }]
  | .general es => es

structure FieldDesc where
  name : Bytes
  /-- `FieldDocs[fieldID]`, `FieldFreqs[fieldID]` -/
  fieldDocs : Nat
  fieldFreqs : Nat
  /-- `DictKeys[fieldID]` with the postings of each term, ascending by term -/
  terms : List (Bytes × TermDesc)
  /-- the doc-value column: `none` without doc values (`fieldNotUninverted`), else the terms of
      the documents that have any, ascending by document (as in `Model/DocValues.lean`).  In the
      builder the column is derived from the postings (`docTermMap`), see `dvOfTerms`. -/
  dv : Option (List (Nat × List Bytes))
deriving Repr, DecidableEq

structure LSeg where
  /-- written by `mergeToWriter` (true) or by `interim.convert` (false) -/
  merger : Bool
  numDocs : Nat
  chunkMode : Nat
  /-- `FieldsInv` order: `_id` first -/
  fields : List FieldDesc
  /-- the stored content per document, as in `Model/Stored.lean` -/
  stored : List Stored.Doc
deriving Repr, DecidableEq

/-- the builder's `docTermMap` (new.go:852-854): for every document the terms of the field that
    contain it, each followed by the separator - as a doc-value column (documents without a term
    are absent).  `n` = number of documents. -/
def dvOfTerms (n : Nat) (terms : List (Bytes × TermDesc)) : List (Nat × List Bytes) :=
  (List.range n).filterMap fun d =>
    let ts := (terms.filter fun t => t.2.entries.any (fun e => e.doc == d)).map (·.1)
    if ts.isEmpty then none else some (d, ts)

/-! ## a writer loop with a running position -/

/-- run `step` over the list; every step sees the state left by the previous one and the write
    position (`w.Count()`), and reports the bytes it wrote -/
def foldW {σ α β : Type} (step : σ → Nat → α → Res (σ × Bytes × β)) :
    σ → Nat → List α → Res (σ × Bytes × List β)
  | s, _, [] => .ok (s, [], [])
  | s, count, x :: xs =>
    match step s count x with
    | .ok (s1, b, o) =>
      match foldW step s1 (count + b.length) xs with
      | .ok (s2, bs, os) => .ok (s2, b ++ bs, o :: os)
      | .err => .err
      | .panic => .panic
    | .err => .err
    | .panic => .panic

/-! ## postings -/

/-- `tfEncoder`, `locEncoder`: created once, re-sized and reset per term -/
structure Coders where
  tf : Coder
  lc : Coder
deriving Repr, DecidableEq

/-- the record `writePostings` appends behind the two chunk streams (write.go:87-104) and
    `writeRoaringWithLen` (write.go:128-153) -/
def postingsRecord (K : Codecs) (tfOffset locOffset : Nat) (docs : List Nat) : Bytes :=
  putUvarint tfOffset ++
  putUvarint (if locOffset > 0 ∧ tfOffset > 0 then sub64 locOffset tfOffset else locOffset) ++
  putUvarint (K.rEnc docs).length ++ K.rEnc docs

/-- One term: `writeDictsTermField` (builder) / `prepareNewTerm` + `mergeTermFreqNormLocs`… +
    `finishTerm` (merger).  `numDocs > 0` here.  Returns the coders after `Reset`, the bytes
    written and the value `writePostings` returned (0: no postings, nothing is inserted into the
    FST).  A description the writer cannot produce (1-hit in the builder, or with a document
    number that is not `under32Bits`) is `err`. -/
def writeTerm (K : Codecs) (merger : Bool) (chunkMode numDocs : Nat) (st : Coders) (count : Nat)
    (t : Bytes × TermDesc) : Res (Coders × Bytes × Nat) := do
  let es := t.2.entries
  -- getChunkSize(chunkMode, cardinality, numDocs); SetChunkSize(chunkSize, numDocs-1)
  let cs ← getChunkSize chunkMode es.length numDocs
  let tf ← st.tf.setChunkSize cs (numDocs - 1)
  let lc ← st.lc.setChunkSize cs (numDocs - 1)
  -- the Add calls, then Close
  let tf ← tf.encode K.chunk (tfAdds es)
  let lc ← lc.encode K.chunk (locAdds es)
  -- writePostings
  let r : Res (Bytes × Nat × Coder × Coder) :=
    if es.isEmpty then .ok ([], 0, tf, lc)                    -- termCardinality <= 0
    else
      match t.2 with
      | .oneHit d n =>
        if merger && under32Bits d then .ok ([], encode1Hit d n, tf, lc) else .err
      | .general _ =>
        let w1 := tf.writeAt count
        let w2 := lc.writeAt (count + w1.2.1.length)
        let postingsOffset := u64 (count + w1.2.1.length + w2.2.1.length)
        .ok (w1.2.1 ++ w2.2.1 ++ postingsRecord K w1.1 w2.1 (es.map (·.doc)),
             postingsOffset, w1.2.2, w2.2.2)
  let (bytes, value, tf, lc) ← r
  -- tfEncoder.Reset(); locEncoder.Reset()
  return ({ tf := tf.reset, lc := lc.reset }, bytes, value)

/-- `if postingsOffset > 0 { builder.Insert(term, postingsOffset) }` over the terms of a field -/
def fstEntries (terms : List (Bytes × TermDesc)) (vals : List Nat) : List (Bytes × Nat) :=
  ((terms.map (·.1)).zip vals).filter (fun p => p.2 > 0)

/-! ## one field: postings, dictionary, doc values -/

structure FieldOut where
  dictLoc : Nat
  dvStart : Nat
  dvEnd : Nat
deriving Repr, DecidableEq

/-- `writeDictsField` / `persistMergedRestField`: the terms, then `uvarint len(fst) · fst` whose
    position is the field's dictionary location, then the doc-value column. -/
def writeField (K : Codecs) (merger : Bool) (chunkMode numDocs : Nat) (st : Coders) (count : Nat)
    (f : FieldDesc) : Res (Coders × Bytes × FieldOut) := do
  let (st, tb, vals) ← foldW (writeTerm K merger chunkMode numDocs) st count f.terms
  let es := fstEntries f.terms vals
  if !ascKeys (es.map (·.1)) then .err else
  let fst := K.fstEnc es
  let dictLoc := u64 (count + tb.length)
  let db := putUvarint fst.length ++ fst
  let pos := count + tb.length + db.length
  match f.dv with
  | none =>
    return (st, tb ++ db, { dictLoc, dvStart := maxUint64, dvEnd := maxUint64 })
  | some vals =>
    let (sec, s, e) ←
      if merger then DocValues.mergeField K.dv dvChunk (numDocs - 1) pos (DocValues.encVals vals)
      else DocValues.buildField K.dv dvChunk (numDocs - 1) pos (DocValues.encVals vals)
    return (st, tb ++ db ++ sec, { dictLoc, dvStart := u64 s, dvEnd := u64 e })

/-- the doc-value index (new.go:672-683, `writeDvLocs`): per field `uvarint start · uvarint end` -/
def dvIndexBytes (outs : List FieldOut) : Bytes :=
  outs.flatMap fun o => putUvarint o.dvStart ++ putUvarint o.dvEnd

/-! ## the fields section -/

/-- one record of `persistFields` -/
def fieldRecord (dictLoc : Nat) (f : FieldDesc) : Bytes :=
  putUvarint dictLoc ++ putUvarint f.name.length ++ f.name ++
  putUvarint f.fieldDocs ++ putUvarint f.fieldFreqs

/-- the record loop of `persistFields`: the bytes and `fieldsOffsets` -/
def persistFieldsLoop : Nat → List (Nat × FieldDesc) → Bytes × List Nat
  | _, [] => ([], [])
  | count, (dl, f) :: r =>
    let rest := persistFieldsLoop (count + (fieldRecord dl f).length) r
    (fieldRecord dl f ++ rest.1, u64 count :: rest.2)

/-- `persistFields` with the writer standing at `count`: bytes written and `fieldsIndexOffset` -/
def persistFields (count : Nat) (fs : List (Nat × FieldDesc)) : Bytes × Nat :=
  let r := persistFieldsLoop count fs
  (r.1 ++ r.2.flatMap (be 8), u64 (count + r.1.length))

/-! ## the whole data section -/

/-- `storedSection = false` is the merger before commit 49af17c for zero survivors (no stored
    section, `storedIndexOffset = 0`); see `serialize_v0`. -/
def serializeWith (storedSection : Bool) (K : Codecs) (L : LSeg) : Res (Bytes × Footer) := do
  let so := Stored.writeStoredFields K.stored docBlock L.stored
  let sb := if storedSection then so.bytes else []
  let sio := if storedSection then so.storedIndexOffset else 0
  let (db, dictLocs, dvOff) ←
    (if L.numDocs > 0 then do
      let tf ← Coder.new 1024 (L.numDocs - 1)          -- newChunkedIntCoder(legacyChunkMode, n-1)
      let lc ← Coder.new 1024 (L.numDocs - 1)
      let (_, fb, outs) ←
        foldW (writeField K L.merger L.chunkMode L.numDocs) { tf, lc } sb.length L.fields
      pure (fb ++ dvIndexBytes outs, outs.map (·.dictLoc), u64 (sb.length + fb.length))
     else
      -- dictOffsets = make([]uint64, len(FieldsInv)); fdvIndexOffset / docValueOffset untouched
      pure ([], L.fields.map (fun _ => 0), if L.merger then maxUint64 else 0)
     : Res (Bytes × List Nat × Nat))
  let pf := persistFields (sb.length + db.length) (dictLocs.zip L.fields)
  return (sb ++ db ++ pf.1,
    { numDocs := L.numDocs, storedIndexOffset := sio, fieldsIndexOffset := pf.2,
      docValueOffset := dvOff, chunkMode := L.chunkMode, version := 2, crc := 0 })

/-- the data section and the footer values as the code stands -/
def serialize (K : Codecs) (L : LSeg) : Res (Bytes × Footer) := serializeWith true K L

/-- … and as the merger was before commit 49af17c: `mergeStoredAndRemap` skipped when nothing
    survives -/
def serialize_v0 (K : Codecs) (L : LSeg) : Res (Bytes × Footer) :=
  serializeWith (!(L.merger && L.numDocs == 0)) K L

/-- the file: `Segment.WriteTo` (segment.go:55-80) and `mergeSegmentBasesWriter`
    (merge.go:88-109) both append `persistFooter` seeded with the checksum of the data section -/
def fileOf (K : Codecs) (data : Bytes) (ft : Footer) : Bytes :=
  data ++ persistFooter K.crc { ft with crc := K.crc.upd 0 data }

/-! ## the loader -/

def mul64 (a b : Nat) : Nat := (a * b) % two64

structure FieldsAcc where
  fieldsInv : List Bytes := []
  dictLocs : List Nat := []
  fieldDocs : List Nat := []
  fieldFreqs : List Nat := []
deriving Repr, DecidableEq

/-- one record of the fields section as `loadFields` reads it (load.go:95-126).  None of the four
    `binary.Uvarint` results is checked (`uvarintU64` keeps Go's value and wrapped byte count for
    a failed read).  The windows of the four varints extend to the end of the data section, not
    ten bytes. -/
def loadFieldRecord (d : DocValues.Data) (addr fieldsIndexEnd : Nat) :
    Res (Nat × Bytes × Nat × Nat) := do
  let w ← d.read addr fieldsIndexEnd
  let (dictLoc, r) := uvarintU64 w
  let n := r
  let w ← d.read (add64 addr n) fieldsIndexEnd
  let (nameLen, r) := uvarintU64 w
  let n := add64 n r
  let nameData ← d.read (add64 addr n) (add64 (add64 addr n) nameLen)
  let n := add64 n nameLen
  let w ← d.read (add64 addr n) fieldsIndexEnd
  let (fieldDocVal, r) := uvarintU64 w
  let n := add64 n r
  let w ← d.read (add64 addr n) fieldsIndexEnd
  let (fieldFreqVal, _) := uvarintU64 w
  pure (dictLoc, nameData, fieldDocVal, fieldFreqVal)

/-- the loop of `loadFields` (load.go:83-133): walk the table of big-endian record addresses from
    `fieldsIndexOffset` to the end of the data section.  `fuel` bounds the iterations: each one
    advances by 8 bytes inside the data (running out is reported as `err`). -/
def loadFieldsLoop (d : DocValues.Data) (fio : Nat) : Nat → Nat → FieldsAcc → Res FieldsAcc
  | 0, _, _ => .err
  | fuel + 1, fieldID, acc =>
    let fieldsIndexEnd := u64 d.bytes.length
    let p := add64 fio (mul64 8 fieldID)
    if p < fieldsIndexEnd then do
      let addrData ← d.read p (add64 p 8)
      let addr := unbe addrData
      let (dictLoc, nameData, fieldDocVal, fieldFreqVal) ← loadFieldRecord d addr fieldsIndexEnd
      loadFieldsLoop d fio fuel (fieldID + 1)
        { fieldsInv := acc.fieldsInv ++ [nameData], dictLocs := acc.dictLocs ++ [dictLoc],
          fieldDocs := acc.fieldDocs ++ [fieldDocVal], fieldFreqs := acc.fieldFreqs ++ [fieldFreqVal] }
    else .ok acc

def loadFields (d : DocValues.Data) (fieldsIndexOffset : Nat) : Res FieldsAcc :=
  loadFieldsLoop d fieldsIndexOffset (d.bytes.length + 1) 0 {}

/-- the loop of `loadDvReaders` (segment.go:316-350) over the remaining fields; `read` is the
    running byte count inside the doc-value index.  Entry `i` of the result is
    `fieldDvReaders[i]` (`none`: no entry). -/
def loadDvLoop (d : DocValues.Data) (dvo : Nat) : List Bytes → Nat →
    Res (List (Option DocValues.Reader))
  | [], _ => .ok []
  | _ :: fs, read => do
    let w ← d.read (add64 dvo read) (add64 (add64 dvo read) 10)
    match uvarint w with
    | none => .err                                          -- n <= 0
    | some (fieldLocStart, n) =>
      let read := add64 read n
      let w ← d.read (add64 dvo read) (add64 (add64 dvo read) 10)
      match uvarint w with
      | none => .err
      | some (fieldLocEnd, n) =>
        let read := add64 read n
        let r ← DocValues.loadFieldDocValueReader d fieldLocStart fieldLocEnd
        let rest ← loadDvLoop d dvo fs read
        pure (r :: rest)

/-- `loadDvReaders` -/
def loadDvReaders (d : DocValues.Data) (ft : Footer) (fieldsInv : List Bytes) :
    Res (List (Option DocValues.Reader)) :=
  if ft.docValueOffset = maxUint64 ∨ ft.numDocs = 0 then .ok (fieldsInv.map fun _ => none)
  else loadDvLoop d ft.docValueOffset fieldsInv 0

/-- the loaded `Segment` -/
structure Loaded where
  data : DocValues.Data
  footer : Footer
  fieldsInv : List Bytes
  dictLocs : List Nat
  fieldDocs : List Nat
  fieldFreqs : List Nat
  storedChunkOffsets : List Nat
  dvReaders : List (Option DocValues.Reader)
deriving Repr, DecidableEq

/-- `load` (load.go:30-73): `mem` selects the backing of `segment.Data`.  The data section is the
    file without its last 44 bytes. -/
def load (mem : Bool) (file : Bytes) : Res Loaded :=
  match parseFooter file with
  | none => .err
  | some ft => do
    let d : DocValues.Data := { bytes := file.take (file.length - 44), mem := mem }
    let fa ← loadFields d ft.fieldsIndexOffset
    let offs ← Stored.loadStoredFieldChunk d.bytes ft.storedIndexOffset
    let dvr ← loadDvReaders d ft fa.fieldsInv
    return { data := d, footer := ft, fieldsInv := fa.fieldsInv, dictLocs := fa.dictLocs,
             fieldDocs := fa.fieldDocs, fieldFreqs := fa.fieldFreqs,
             storedChunkOffsets := offs, dvReaders := dvr }

/-- what the stored-fields reader of `Model/Stored.lean` sees of a loaded segment -/
def Loaded.storedSeg (ld : Loaded) : Stored.Seg :=
  { bs := docBlock, mem := ld.data.bytes, numDocs := ld.footer.numDocs,
    storedIndexOffset := ld.footer.storedIndexOffset, chunkOffsets := ld.storedChunkOffsets,
    numFields := ld.fieldsInv.length }

/-! ## lazy readers -/

/-- `Segment.dictionary` for the field with id `fieldID` (the code takes the name and looks the
    id up in `fieldsMap`): the entries of its FST; `none` for an unknown field and for a field
    without dictionary (`dictLocs[id] = 0`, nil FST). -/
def dictionaryOf (K : Codecs) (ld : Loaded) (fieldID : Nat) : Res (Option (List (Bytes × Nat))) :=
  match ld.dictLocs[fieldID]? with
  | none => .ok none
  | some dictStart =>
    if dictStart > 0 then do
      let w ← ld.data.read dictStart (add64 dictStart 10)
      let (vellumLen, r) := uvarintU64 w                      -- unchecked
      let fstBytes ← ld.data.read (add64 dictStart r) (add64 (add64 dictStart r) vellumLen)
      match K.fstDec fstBytes with
      | none => .err                                          -- vellum.Load
      | some es => pure (some es)
    else .ok none

/-- the part of `PostingsList.read` that touches storage (posting.go:256-293): three varints
    through 10-byte windows (byte counts unchecked), then the roaring bytes -/
def readRecord (K : Codecs) (ld : Loaded) (postingsOffset : Nat) : Res Dict.Rec := do
  let w ← ld.data.read postingsOffset (add64 postingsOffset 10)
  let (freqOffset, r) := uvarintU64 w
  let n := r
  let w ← ld.data.read (add64 postingsOffset n) (add64 (add64 postingsOffset n) 10)
  let (locOffset, r) := uvarintU64 w
  let n := add64 n r
  let w ← ld.data.read (add64 postingsOffset n) (add64 (add64 postingsOffset n) 10)
  let (postingsLen, r) := uvarintU64 w
  let n := add64 n r
  let rb ← ld.data.read (add64 postingsOffset n) (add64 (add64 postingsOffset n) postingsLen)
  match K.rDec rb with
  | none => .err                                              -- FromBuffer
  | some docs => pure { freqOffset, locOffset, docs }

/-- what `PostingsList.read` leaves in the list -/
inductive PostingsDesc where
  | oneHit (doc norm : Nat)
  | general (freqOffset locOffset : Nat) (docs : List Nat) (chunkSize : Nat)
deriving Repr, DecidableEq

/-- `PostingsList.read` (posting.go:239-301) on an FST value -/
def readPostings (K : Codecs) (ld : Loaded) (v : Nat) : Res PostingsDesc :=
  if is1Hit v then
    .ok (.oneHit (decode1Hit v).1 (decode1Hit v).2)
  else do
    let r ← readRecord K ld v
    let loc := if r.locOffset > 0 ∧ r.freqOffset > 0 then add64 r.locOffset r.freqOffset
               else r.locOffset
    let cs ← getChunkSize ld.footer.chunkMode r.docs.length ld.footer.numDocs
    pure (.general r.freqOffset loc r.docs cs)

/-- the loaded segment as the object-level model of dictionaries (`Model/Dict.lean`) sees it:
    `store` is what `readRecord` finds -/
def Loaded.store (K : Codecs) (ld : Loaded) (off : Nat) : Option Dict.Rec :=
  match readRecord K ld off with
  | .ok r => some r
  | _ => none

end Ice.Model.Format
