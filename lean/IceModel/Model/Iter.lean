import IceModel.Spec.Iter
/-
  Entry-level model of `PostingsIterator` (posting.go:446-689) for the general encoding.

  The two roaring cursors (`all`, `Actual`) are lists of the document numbers still ahead; the two
  chunk readers (`freqNormReader`, `locReader`) are the lists of entries of the loaded chunk that
  have not been consumed yet.  "Entry-level" means one list element per posting instead of its
  varint bytes; `IceModel/Model/ChunkBytes.lean` relates entries to bytes.

  Mirrors, function by function:
    PostingsList.iterator          ↦ `mk`
    PostingsIterator.loadChunk     ↦ `loadChunk`
    currChunkNext                  ↦ `currChunkNext`
    nextDocNumAtOrAfter            ↦ `nextDoc`   (exclusion path: `exclLoop`)
    nextDocNumAtOrAfterClean       ↦ `nextDoc`   (clean path: `cleanLoop`, `repeatSkip`)
    nextAtOrAfter                  ↦ `step`
  A result `none` of a function is a fault (the Go code would panic or return an error): reading
  an entry from an exhausted chunk reader, or `all` running out before it reaches `n`.
-/
namespace Ice.Model.Iter
open Ice Ice.Spec

/-- includeFreqNorm / includeLocs as computed by `PostingsList.iterator` -/
structure RFlags where
  incFN : Bool
  incL : Bool
deriving Repr, DecidableEq

def RFlags.of (fl : Flags) : RFlags := { incFN := fl.freq || fl.norm || fl.locs, incL := fl.locs }

def chunkOf (cs : Nat) (P : List Posting) (c : Nat) : List Posting :=
  P.filter (fun p => p.doc / cs == c)

def hasLocs (p : Posting) : Bool := !p.locs.isEmpty

structure It where
  cs : Nat                          -- postings.chunkSize
  P : List Posting                  -- the postings list as encoded (ascending by doc)
  all : List Nat                    -- i.all: document numbers still ahead
  act : List Nat                    -- i.Actual: non-excluded document numbers still ahead
  clean : Bool                      -- i.postings.postings == i.ActualBM
  currChunk : Nat
  fnR : Option (List Posting)       -- freqNormReader: none = isNil; entries not yet consumed
  lcR : List Posting                -- locReader: entries (postings with locations) not yet consumed
  fl : RFlags
deriving Repr

/-- `PostingsList.iterator` for a general (non 1-hit) list; `E = none` is a nil `except` -/
def mk (cs : Nat) (P : List Posting) (E : Option (List Nat)) (fl : RFlags) : It :=
  let docs := P.map (·.doc)
  match E with
  | none => { cs, P, all := docs, act := docs, clean := true, currChunk := 0, fnR := none, lcR := [], fl }
  | some e => { cs, P, all := docs, act := docs.filter (fun d => !e.contains d), clean := false,
                currChunk := 0, fnR := none, lcR := [], fl }

def loadChunk (i : It) (c : Nat) : It :=
  let es := chunkOf i.cs i.P c
  { i with currChunk := c,
           fnR := if i.fl.incFN then (if es.isEmpty then none else some es) else i.fnR,
           lcR := if i.fl.incL then es.filter hasLocs else i.lcR }

/-- `i.currChunk != nChunk || i.freqNormReader.isNil()` -/
def needLoad (i : It) (c : Nat) : Bool := i.currChunk != c || i.fnR.isNone

/-- `currChunkNext`: skip one entry of chunk `c` in both readers -/
def currChunkNext (i : It) (c : Nat) : Option It :=
  let i := if needLoad i c then loadChunk i c else i
  match i.fnR with
  | none => none
  | some [] => none
  | some (e :: r) =>
    let i := { i with fnR := some r }
    if i.fl.incL && hasLocs e then
      match i.lcR with
      | [] => none
      | _ :: lr => some { i with lcR := lr }
    else some i

/-- the `for allN != n` loop of the exclusion path; returns the state and what is left of `all` -/
def exclLoop (i : It) (n nChunk : Nat) : Nat → List Nat → Option (It × List Nat)
  | allN, rest =>
    if allN == n then some (i, rest) else
    match (if i.fl.incFN && allN ≥ nChunk * i.cs then currChunkNext i nChunk else some i) with
    | none => none
    | some i' =>
      match rest with
      | [] => none
      | a :: r => exclLoop i' n nChunk a r
termination_by _ rest => rest.length

/-- the `for uint64(n) < atOrAfter && i.Actual.HasNext()` loop of the clean path:
    returns (n, nChunk, sameChunkNexts, what is left of Actual) -/
def cleanLoop (cs d : Nat) : (n nChunk same : Nat) → List Nat → (Nat × Nat × Nat × List Nat)
  | n, nChunk, same, rest =>
    if n < d then
      match rest with
      | [] => (n, nChunk, same, [])
      | m :: r =>
        let c' := m / cs
        cleanLoop cs d m c' (if c' != nChunk then 0 else same + 1) r
    else (n, nChunk, same, rest)
termination_by _ _ _ rest => rest.length

def repeatSkip : Nat → It → Nat → Option It
  | 0, i, _ => some i
  | k+1, i, c => match currChunkNext i c with
    | none => none
    | some i' => repeatSkip k i' c

/-- `nextDocNumAtOrAfter`: `some (none, _)` = nothing found; outer `none` = fault -/
def nextDoc (i : It) (d : Nat) : Option (Option Nat × It) :=
  match i.act with
  | [] => some (none, i)
  | n0 :: r0 =>
  if i.clean then
    if !i.fl.incFN then
      match i.act.dropWhile (· < d) with
      | [] => some (none, { i with act := [], all := [] })
      | n :: r => some (some n, { i with act := r, all := r })
    else
      let (n, nChunk, same, rest) := cleanLoop i.cs d n0 (n0 / i.cs) 0 r0
      let i := { i with act := rest, all := rest }
      if n < d then some (none, i) else
      match repeatSkip same i nChunk with
      | none => none
      | some i =>
        let i := if needLoad i nChunk then loadChunk i nChunk else i
        some (some n, i)
  else
    match i.act.dropWhile (· < d) with
    | [] => some (none, { i with act := [] })
    | n :: r =>
      match i.all with
      | [] => none
      | allN :: arest =>
        let nChunk := n / i.cs
        match exclLoop { i with act := r } n nChunk allN arest with
        | none => none
        | some (i, arest') =>
          let i := { i with all := arest' }
          let i := if i.fl.incFN && needLoad i nChunk then loadChunk i nChunk else i
          some (some n, i)

/-- `nextAtOrAfter`: the posting delivered (freq/norm/locations only as far as they are decoded) -/
def step (i : It) (op : IterOp) : Option (Option Posting × It) :=
  let d := match op with
    | .next => 0
    | .advance d => d
  match nextDoc i d with
  | none => none
  | some (none, i) => some (none, i)
  | some (some n, i) =>
    if !i.fl.incFN then some (some { doc := n, freq := 0, norm := 0, locs := [] }, i) else
    match i.fnR with
    | some (e :: r) =>
      let i := { i with fnR := some r }
      if i.fl.incL && hasLocs e then
        match i.lcR with
        | l :: lr => some (some { doc := n, freq := e.freq, norm := e.norm, locs := l.locs }, { i with lcR := lr })
        | [] => none
      else some (some { doc := n, freq := e.freq, norm := e.norm, locs := [] }, i)
    | _ => none

/-- run a script; a fault ends the transcript with `none` -/
def run : It → List IterOp → List (Option (Option Posting))
  | _, [] => []
  | i, op :: ops => match step i op with
    | none => [none]
    | some (r, i') => some r :: run i' ops

/-- what the code has decoded when it hands a posting out: everything the readers cover -/
def decoded (fl : RFlags) (p : Posting) : Posting :=
  { doc := p.doc,
    freq := if fl.incFN then p.freq else 0,
    norm := if fl.incFN then p.norm else 0,
    locs := if fl.incL then p.locs else [] }

/-- the specification run at the same level of detail as `run` -/
def specRun (fl : RFlags) : List Posting → List IterOp → List (Option (Option Posting))
  | _, [] => []
  | L, op :: ops =>
    let (r, L') := iterStep L op
    some (r.map (decoded fl)) :: specRun fl L' ops

end Ice.Model.Iter

namespace Ice.Model.Iter

/-- `OptimizablePostingsIterator.ReplaceActual(abm)` (posting.go:691-696):
      `i.ActualBM = abm; i.Actual = abm.Iterator()`.
    The method assigns exactly these two fields.  `Actual` becomes a fresh cursor standing before
    the first element of `abm`; `all`, `currChunk` and both chunk readers keep their state.  The
    model field `clean` is the Go test `i.postings.postings == i.ActualBM` (pointer comparison),
    so it is a function of `ActualBM`: for a bitmap object other than the list's own bitmap the
    test is false from now on.  (For the list's own bitmap object see `replaceActualSameObj`.) -/
def replaceActual (i : It) (abm : List Nat) : It := { i with act := abm, clean := false }

/-- `ReplaceActual(abm)` when `abm` IS the object `i.postings.postings` (a caller can obtain that
    pointer from `ActualBitmap()` of an iterator created without exclusion): the pointer test
    `i.postings.postings == i.ActualBM` is true afterwards whatever it was before, and the fresh
    cursor runs over all document numbers of the list. -/
def replaceActualSameObj (i : It) : It := { i with act := i.P.map (·.doc), clean := true }

end Ice.Model.Iter
