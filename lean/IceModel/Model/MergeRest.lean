import IceModel.Model.Stored
import IceModel.Model.DocValues
import IceModel.Model.Builder
/-
  Model of the parts of merge.go around the dictionary/postings loop (which is
  `IceModel/Model/MergeLoop.lean`):

    mergeFields            merge.go:825-856   ↦ `sameAs`, `fieldsSame`, `keysOf`, `mergeFieldsWith`,
                                                `mergeFields`
    mapFields              merge.go:164-170   ↦ `mapFields`, `fieldsMapGet`
    computeNewDocCount     merge.go:174-183   ↦ `computeNewDocCount`
    mergeStoredAndRemap    merge.go:627-706   ↦ `segLoop`, `mergeStoredAndRemap`
    mergeStoredAndRemapSegment   708-763      ↦ `collectVals`, `groupsOf`, `remapSegLoop`
    copyStoredDocs         merge.go:768-819   ↦ `copyLoop`, `copyChunks`, `copyStoredDocs`
    setupActiveForField    merge.go:525-559   ↦ `setupFocus` (only the two lists the doc-value
                                                part uses: `newDocNums`, `segmentsInFocus`)
    buildMergedDocVals     merge.go:371-433   ↦ `dvVisitor`, `dvLoop`, `buildMergedDocVals`,
                                                `dvField` (= setupFocus; buildMergedDocVals)
    iterateAllDocValues    docvalues.go:201-230 ↦ `iterChunk`, `iterateAll`

  The stored part sits on `Stored.Coder` / `Stored.Seg` / `Stored.visit`, the doc-value part on
  `DocValues.Coder` / `DocValues.Reader` / `Reader.loadDvChunk`.

  Conventions
    * Go operations that can fail return `Res` (`err`: returned error, `panic`: run-time panic).
    * A roaring bitmap is a duplicate-free list of naturals; `GetCardinality` is its length.  A nil
      bitmap and an empty one are treated alike everywhere in these functions
      (merge.go:178, 664, 715), so `drops[i]` is a plain list.  `Contains(uint32(docNum))` keeps
      the truncation.
    * `docDropped = math.MaxInt64`.
    * `map[string]struct{}` iteration (merge.go:847) is an arbitrary order: `mergeFieldsWith` takes
      the order as a parameter (`MapOrder`: duplicate-free, exactly the inserted keys);
      `mergeFields` fixes the insertion order.  `mapFields` builds an association list; the
      `uint16` arithmetic wraps.
    * `int` arithmetic of `copyStoredDocs` is rendered on `Int` with wrap-around (`addI`);
      `int(x)` of a `uint64` is `Stored.toInt64`.  A slice expression `b[i:j]` with `int` bounds
      panics unless `0 ≤ i ≤ j ≤ cap(b)` (`sliceI`).
    * The block size of the document coder (`defaultDocumentChunkSize = 128`) and the doc-value
      chunk size (`getChunkSize(legacyChunkMode, 0, 0) = 1024`) are parameters.
    * `closeCh` is not modelled (the merge is not cancelled).

  Known imprecision (all outside the input contract): if `visitDocument` fails *after* it has
  delivered a value on which the callback of merge.go:730 would panic (`vals[-1]`: the field name
  is not in `fieldsMap`), Go panics while the model reports the failure of the visit.
  `uncompressed[start:entry.DocDvOffset]` (docvalues.go:220) is checked against the length, Go
  checks against the capacity (as in `DocValues.Reader.visitDocValues`).
-/
namespace Ice.Model.MergeRest
open Ice Ice.Model

/-- `docDropped = math.MaxInt64` (merge.go:31) -/
def docDropped : Nat := 2 ^ 63 - 1

/-- `fieldNotUninverted = math.MaxUint64` -/
def fieldNotUninverted : Nat := 2 ^ 64 - 1

/-! ## mergeFields / mapFields (merge.go:825-856, 164-170) -/

/-- the loop body of merge.go:836-841 for one segment: no position sets `same = false`.
    `segment0Fields[fieldi]` is only evaluated when the lengths agree (`||` short-circuits), so
    the index is in range. -/
def sameAs (seg0 fields : List Bytes) : Bool :=
  fields.zipIdx.all fun p => !(seg0.length != fields.length || seg0[p.2]? != some p.1)

/-- `same` after the loop over all segments (segment 0 included) -/
def fieldsSame (segs : List (List Bytes)) : Bool :=
  match segs with
  | [] => true
  | s0 :: _ => segs.all (sameAs s0)

/-- the keys of `fieldsExist` in insertion order -/
def keysOf (segs : List (List Bytes)) : List Bytes :=
  segs.flatten.foldl (fun acc k => if acc.contains k then acc else acc ++ [k]) []

/-- `order` is a possible iteration order of the map `fieldsExist` -/
def MapOrder (order : List Bytes) (segs : List (List Bytes)) : Prop :=
  order.Nodup ∧ ∀ x, x ∈ order ↔ x ∈ segs.flatten

/-- `mergeFields` with the map iterated in the order `order` -/
def mergeFieldsWith (order : List Bytes) (segs : List (List Bytes)) : Bool × List Bytes :=
  (fieldsSame segs, idField :: Builder.sortS (order.filter (fun k => k != idField)))

/-- `mergeFields` (map iterated in insertion order; `F_fields`: the order is irrelevant) -/
def mergeFields (segs : List (List Bytes)) : Bool × List Bytes :=
  mergeFieldsWith (keysOf segs) segs

/-- `mapFields`: later duplicates overwrite, `uint16(i) + 1` wraps -/
def mapFields (fields : List Bytes) : Builder.AMap Bytes Nat :=
  fields.zipIdx.foldl (fun m p => Builder.aset m p.1 (Builder.u16 (Builder.u16 p.2 + 1))) []

/-- `fieldsMap[name]` (0 for a missing key) -/
def fieldsMapGet (m : Builder.AMap Bytes Nat) (name : Bytes) : Nat := (Builder.aget m name).getD 0

/-! ## computeNewDocCount (merge.go:174-183) -/

/-- input: `(footer.numDocs, drops)` per segment; uint64 arithmetic -/
def computeNewDocCount (segs : List (Nat × List Nat)) : Nat :=
  segs.foldl (fun acc p => DocValues.sub64 (DocValues.add64 acc p.1) p.2.length) 0

/-! ## the stored section -/

section StoredPart
open Ice.Model.Stored

/-- what the merge reads of an input segment for the stored section -/
structure Src where
  fields : List Bytes            -- seg.fieldsInv
  seg : Stored.Seg
deriving Repr, DecidableEq

/-- `newDocNum`, `docNumOffsets`, `docChunkCoder` and the pooled visit context -/
structure MS where
  newDocNum : Nat
  dno : List Nat
  coder : Coder
  vdc : Buf
deriving Repr, DecidableEq

/-- `Contains(uint32(docNum))` (merge.go:715) -/
def isDropped (drops : List Nat) (docNum : Nat) : Bool := drops.contains (docNum % 2 ^ 32)

/-- the visitor of merge.go:730-734 applied to the delivered values:
    `vals[int(fieldsMap[field]) - 1] = append(…, value)` -/
def collectVals (srcFields : List Bytes) (fm : Builder.AMap Bytes Nat) :
    List (Nat × Bytes) → List (List Bytes) → Res (List (List Bytes))
  | [], vals => .ok vals
  | (fid, v) :: r, vals =>
    match srcFields[fid]? with
    | none => .panic                         -- s.fieldsInv[field]
    | some name =>
      let id1 := fieldsMapGet fm name
      if id1 = 0 then .panic                 -- vals[-1]
      else if id1 - 1 < vals.length then
        collectVals srcFields fm r (vals.set (id1 - 1) (vals.getD (id1 - 1) [] ++ [v]))
      else .panic

/-- `vals` as the loop of merge.go:740-749 walks it: `(fieldID, vals[fieldID])`, all field ids -/
def groupsOf (vals : List (List Bytes)) : Doc := vals.zipIdx.map fun p => (p.2, p.1)

/-- the document loop of `mergeStoredAndRemapSegment` over the document numbers still to do;
    `seen` is `segNewDocNums` so far -/
def remapSegLoop (cd : Codec) (src : Src) (drops : List Nat) (fm : Builder.AMap Bytes Nat)
    (nMerged : Nat) : List Nat → MS → List Nat → Res (MS × List Nat)
  | [], st, seen => .ok (st, seen)
  | docNum :: r, st, seen =>
    if isDropped drops docNum then remapSegLoop cd src drops fm nMerged r st (seen ++ [docDropped])
    else
      Res.bind (visit cd src.seg st.vdc docNum none) fun dv =>
      Res.bind (collectVals src.fields fm dv.1 (List.replicate nMerged [])) fun vals =>
      let e := encodeDoc (groupsOf vals) {}
      if st.newDocNum < st.dno.length then         -- docNumOffsets[newDocNum] = Size()
        remapSegLoop cd src drops fm nMerged r
          { newDocNum := st.newDocNum + 1, dno := st.dno.set st.newDocNum st.coder.buf.length,
            coder := st.coder.add cd e.mta e.data, vdc := dv.2 }
          (seen ++ [st.newDocNum])
      else .panic

/-- `mergeStoredAndRemapSegment` (merge.go:708-763) -/
def remapSegment (cd : Codec) (src : Src) (drops : List Nat) (fm : Builder.AMap Bytes Nat)
    (nMerged : Nat) (st : MS) : Res (MS × List Nat) :=
  remapSegLoop cd src drops fm nMerged (List.range src.seg.numDocs) st []

/-! ### copyStoredDocs -/

/-- Go `int` addition -/
def addI (a b : Int) : Int := DocValues.wrap64 (a + b)

/-- `b[i:j]` with `int` bounds -/
def sliceI (b : Buf) (i j : Int) : Res Buf :=
  if 0 ≤ i ∧ i ≤ j ∧ j ≤ (b.mem.length : Int) then .ok ⟨b.mem.drop i.toNat, j.toNat - i.toNat⟩
  else .panic

/-- `if e > cap(uncompressed) { e = cap(uncompressed) }` -/
def clampI (e : Int) (b : Buf) : Int := if e > (b.cap : Int) then (b.cap : Int) else e

/-- state of the copy: the local `newDocNum`, `newDocNumOffsets`, `docChunkCoder` -/
structure CS where
  newDocNum : Nat
  dno : List Nat
  coder : Coder
deriving Repr, DecidableEq

/-- the record loop of `copyStoredDocs` (merge.go:791-815) on the decompressed block `unc`, at
    `storedOffset`.  Every round writes `newDocNumOffsets[newDocNum]` and increments `newDocNum`,
    so `slots` = `len(newDocNumOffsets) - newDocNum` bounds the number of rounds: the next round
    panics on the index. -/
def copyLoop (cd : Codec) (unc : Buf) : Nat → Int → CS → Res CS
  | slots, off, st =>
    if off < (unc.len : Int) then
      let metaEnd := clampI (addI off 10) unc
      Res.bind (sliceI unc off metaEnd) fun w1 =>
      let r1 := uvarintGo w1.data                      -- metaLen, read
      let n1 := addI 0 r1.2
      let dataEnd := clampI (addI (addI off n1) 10) unc
      Res.bind (sliceI unc (addI off n1) dataEnd) fun w2 =>
      let r2 := uvarintGo w2.data                      -- dataLen, read
      let n := addI n1 r2.2
      match slots with
      | 0 => .panic                                    -- newDocNumOffsets[newDocNum]
      | slots + 1 =>
        let a := addI off n
        let b := addI a (toInt64 r1.1)
        let c := addI a (toInt64 (add64 r1.1 r2.1))
        Res.bind (sliceI unc a b) fun mb =>
        Res.bind (sliceI unc b c) fun db =>
        copyLoop cd unc slots c
          { newDocNum := st.newDocNum + 1, dno := st.dno.set st.newDocNum st.coder.buf.length,
            coder := st.coder.add cd mb.data db.data }
    else .ok st

/-- the chunk loop of `copyStoredDocs` (merge.go:775-816); `unc` is the local `uncompressed` -/
def copyChunks (cd : Codec) (seg : Seg) : List Nat → Buf → CS → Res CS
  | [], _, st => .ok st
  | i :: r, unc, st =>
    Res.bind (index seg.chunkOffsets i) fun cs =>
    Res.bind (index seg.chunkOffsets (i + 1)) fun ce =>
    if cs = ce then copyChunks cd seg r unc st
    else
      Res.bind (dataRead seg.mem cs ce) fun compressed =>
      match decompressInto cd unc compressed with
      | none => .err
      | some unc =>
        Res.bind (copyLoop cd unc (st.dno.length - st.newDocNum) 0 st) fun st =>
        copyChunks cd seg r unc st

/-- `copyStoredDocs` (merge.go:768-819); `uncompressed := make([]byte, 0)` -/
def copyStoredDocs (cd : Codec) (seg : Seg) (st : CS) : Res CS :=
  if seg.numDocs = 0 then .ok st
  else copyChunks cd seg (List.range (seg.chunkOffsets.length - 1)) Buf.empty st

/-! ### the segment loop -/

/-- the `for segI, seg := range segments` loop of `mergeStoredAndRemap` (merge.go:651-687).
    `copyStoredDocs` receives `newDocNum` by value: afterwards the caller advances its own counter
    by `footer.numDocs` (merge.go:670-673). -/
def segLoop (cd : Codec) (drops : List (List Nat)) (fm : Builder.AMap Bytes Nat) (nMerged : Nat)
    (same : Bool) : List (Src × Nat) → MS → List (List Nat) → Res (MS × List (List Nat))
  | [], st, acc => .ok (st, acc)
  | (src, segI) :: r, st, acc =>
    match drops[segI]? with
    | none => .panic                                   -- drops[segI]
    | some dropsI =>
      if same && dropsI.length == 0 then
        Res.bind (copyStoredDocs cd src.seg ⟨st.newDocNum, st.dno, st.coder⟩) fun cs =>
        segLoop cd drops fm nMerged same r
          { newDocNum := st.newDocNum + src.seg.numDocs, dno := cs.dno, coder := cs.coder,
            vdc := st.vdc }
          (acc ++ [(List.range src.seg.numDocs).map (st.newDocNum + ·)])
      else
        Res.bind (remapSegment cd src dropsI fm nMerged st) fun p =>
        segLoop cd drops fm nMerged same r p.1 (acc ++ [p.2])

/-- `mergeStoredAndRemap` (merge.go:627-706).  It is the first writer of `mergeToWriter`, so the
    byte count of the coder is the file offset.  Result: the stored section, `newDocNums`, and the
    pooled visit context as it is put back. -/
def mergeStoredAndRemap (cd : Codec) (bs : Nat) (srcs : List Src) (drops : List (List Nat))
    (fieldsInv : List Bytes) (same : Bool) (newSegDocCount : Nat) (vdc : Buf) :
    Res (StoredOut × List (List Nat) × Buf) :=
  Res.bind (segLoop cd drops (mapFields fieldsInv) fieldsInv.length same srcs.zipIdx
      { newDocNum := 0, dno := List.replicate newSegDocCount 0, coder := { chunkSize := bs },
        vdc := vdc } []) fun p =>
  let c := p.1.coder.write cd
  .ok ({ bytes := c.w ++ p.1.dno.flatMap (Writer.be 8), storedIndexOffset := c.w.length,
         chunkOffsets := c.offsets }, p.2, p.1.vdc)

/-- the first lines of `mergeToWriter` (merge.go:117-132) for the stored section -/
def mergeStored (cd : Codec) (bs : Nat) (srcs : List Src) (drops : List (List Nat)) (vdc : Buf) :
    Res (StoredOut × List (List Nat) × Buf) :=
  let mf := mergeFields (srcs.map (·.fields))
  if drops.length < srcs.length then .panic          -- drops[segI] in computeNewDocCount
  else
    let numDocs :=
      computeNewDocCount (srcs.zipIdx.map fun p => (p.1.seg.numDocs, drops.getD p.2 []))
    mergeStoredAndRemap cd bs srcs drops mf.2 mf.1 numDocs vdc

end StoredPart

/-! ## doc values -/

section DvPart
open Ice.Model.DocValues

/-- the entry loop of `iterateAllDocValues` (docvalues.go:218-226) -/
def iterChunk {σ : Type} (f : σ → Nat → Bytes → Res σ) (unc : Bytes) :
    List (Nat × Nat) → Nat → σ → Res σ
  | [], _, s => .ok s
  | (d, off) :: r, start, s =>
    if start ≤ off ∧ off ≤ unc.length then       -- uncompressed[start:entry.DocDvOffset]
      f s d ((unc.drop start).take (off - start)) >>= fun s => iterChunk f unc r off s
    else .panic

/-- `iterateAllDocValues` (docvalues.go:201-230) over the chunk numbers still to do, with a
    state-passing visitor -/
def iterateAll {σ : Type} (z : Codec) (data : Data) (f : σ → Nat → Bytes → Res σ) :
    List Nat → Reader → σ → Res (σ × Reader)
  | [], di, s => .ok (s, di)
  | i :: r, di, s =>
    di.loadDvChunk data i >>= fun di =>
    match di.curChunkData with
    | none => iterateAll z data f r di s
    | some cdta =>
      if di.curChunkHeader.length = 0 then iterateAll z data f r di s
      else
        match z.unZ cdta with
        | none => .err
        | some u =>
          iterChunk f u di.curChunkHeader 0 s >>= fun s =>
          iterateAll z data f r { di with uncompressed := u } s

/-- a segment in focus, as `buildMergedDocVals` looks at it: its data and
    `seg.fieldDvReaders[seg.fieldsMap[fieldName]-1]` (`none`: no entry, or a nil reader) -/
structure DvSeg where
  data : Data
  reader : Option Reader

/-- the field's reader in a segment with field list `fields` and readers `readers` (by field id).
    For a name the segment does not know `fieldsMap` yields 0 and the `uint16` subtraction wraps to
    65535: no reader (fewer than 65536 fields). -/
def dvReaderOf (fields : List Bytes) (readers : List (Option Reader)) (name : Bytes) :
    Option Reader :=
  match fields.idxOf? name with
  | none => none
  | some i => (readers[i]?).join

/-- the callback of merge.go:398-407 -/
def dvVisitor (z : Codec) (newDocNums : List (List Nat)) (segmentI : Nat) (c : Coder)
    (docNum : Nat) (terms : Bytes) : Res Coder :=
  match (newDocNums[segmentI]?).bind (fun l => l[docNum]?) with
  | none => .panic                               -- newDocNums[segmentI][docNum]
  | some nn => if nn = docDropped then .ok c else c.add z nn terms

/-- the loop over `segmentsInFocus` (merge.go:386-412); the flag is `fdvReadersAvailable` -/
def dvLoop (z : Codec) (newDocNums : List (List Nat)) :
    List (DvSeg × Nat) → Coder → Bool → Res (Coder × Bool)
  | [], c, av => .ok (c, av)
  | (seg, segmentI) :: r, c, av =>
    match seg.reader with
    | none => dvLoop z newDocNums r c av
    | some dvIter =>
      iterateAll z seg.data (dvVisitor z newDocNums segmentI)
          (List.range dvIter.chunkOffsets.length) dvIter.clone c >>= fun p =>
      dvLoop z newDocNums r p.1 true

/-- `buildMergedDocVals` (merge.go:371-433): bytes written, `fieldDvLocsStart[fieldID]`,
    `fieldDvLocsEnd[fieldID]`.  `count` is `w.Count()` on entry. -/
def buildMergedDocVals (z : Codec) (cs newSegDocCount count : Nat) (focus : List DvSeg)
    (newDocNums : List (List Nat)) : Res (Bytes × Nat × Nat) :=
  Coder.new cs (sub64 newSegDocCount 1) true >>= fun c =>
  dvLoop z newDocNums focus.zipIdx c false >>= fun p =>
  if p.2 then
    p.1.flush z >>= fun c =>
    let c := c.write.1
    .ok (c.out, count, count + c.out.length)
  else .ok (p.1.out, fieldNotUninverted, fieldNotUninverted)

/-- `setupActiveForField` (merge.go:525-559), the lists used by the doc-value part:
    `newDocNums` (filtered, parallel to `segmentsInFocus`) and `segmentsInFocus`.
    `inFocus`: the segment has a dictionary for the field whose FST holds at least one key. -/
def setupFocus {α β : Type} (inFocus : α → Bool) (newDocNumsIn : List β) :
    List (α × Nat) → Res (List β × List α)
  | [] => .ok ([], [])
  | (seg, segmentI) :: r =>
    if inFocus seg then
      match newDocNumsIn[segmentI]? with
      | none => .panic                           -- newDocNumsIn[segmentI]
      | some m => setupFocus inFocus newDocNumsIn r >>= fun p => .ok (m :: p.1, seg :: p.2)
    else setupFocus inFocus newDocNumsIn r

/-- the doc-value part of `persistMergedRestField` (merge.go:251-252, 336-337):
    `buildMergedDocVals` is handed the FILTERED `newDocNums` -/
def dvField {α : Type} (z : Codec) (cs newSegDocCount count : Nat) (segs : List α)
    (inFocus : α → Bool) (dv : α → DvSeg) (newDocNumsIn : List (List Nat)) :
    Res (Bytes × Nat × Nat) :=
  setupFocus inFocus newDocNumsIn segs.zipIdx >>= fun p =>
  buildMergedDocVals z cs newSegDocCount count (p.2.map dv) p.1

/-- NOT the Go code: the same with the unfiltered per-input list (the seeded defect) -/
def dvFieldUnfiltered {α : Type} (z : Codec) (cs newSegDocCount count : Nat) (segs : List α)
    (inFocus : α → Bool) (dv : α → DvSeg) (newDocNumsIn : List (List Nat)) :
    Res (Bytes × Nat × Nat) :=
  setupFocus inFocus newDocNumsIn segs.zipIdx >>= fun p =>
  buildMergedDocVals z cs newSegDocCount count (p.2.map dv) newDocNumsIn

end DvPart

end Ice.Model.MergeRest
