import IceModel.Model.Varint
import IceModel.Model.Writer
/-
  Model of the doc-value column of one field (property C07).

  Writer side (contentcoder.go):
    newChunkedContentCoder  ↦ `Coder.new`
    flushContents / Close   ↦ `Coder.flush`
    Add                     ↦ `Coder.add`
    Write                   ↦ `Coder.write`        (modifyLengthsToEndOffsets ↦ `endOffsets`)
    new.go:738-773          ↦ `buildField`         (non-progressive; start offset taken after Close)
    merge.go:371-432        ↦ `mergeField`         (progressive; start offset taken before the chunks)
  Reader side (docvalues.go):
    segment.Data.Read       ↦ `Data.read`          (memory-backed: slicing panics; file-backed: error)
    loadFieldDocValueReader ↦ `loadFieldDocValueReader`
    loadDvChunk             ↦ `Reader.loadDvChunk` (readChunkBoundary ↦ `readChunkBoundary`)
    getDocValueLocs         ↦ `getDocValueLocs`    (sort.Search ↦ `sortSearch`, the binary search itself)
    visitDocValues          ↦ `Reader.visitDocValues`
    visitDocumentFieldTerms ↦ `Reader.visit`       (one field; the per-field readers are independent)
    cloneInto               ↦ `Reader.clone`

  uint64 arithmetic is rendered on `Nat` with explicit wrap-around (`add64`, `sub64`), `int(x)`
  conversions by `i64`.  The destination writer `c.w` accepts everything (its failure paths are the
  subject of the Writer model); what it received is `Coder.out`.

  Not modelled: allocation failure for huge (but positive) lengths read from a corrupted file; the
  capacity of slices (`uncompressed[start:end]` is checked against `len`, Go checks against `cap`, so
  on corrupted input Go may deliver stale bytes where the model panics); on an error in the middle
  of `loadDvChunk` Go leaves the reader partially updated, the model only reports the error.
-/
namespace Ice.Model.DocValues
open Ice Ice.Model Ice.Model.Writer

/-! ### plumbing -/

def Res.bind {α β : Type} : Res α → (α → Res β) → Res β
  | .ok a, f => f a
  | .err, _ => .err
  | .panic, _ => .panic

/-- scoped: other model files may bring their own plumbing for `Res` -/
scoped instance : Monad Res where
  pure := .ok
  bind := Res.bind

/-- a block compressor with the law ice relies on (zstd.go: `EncodeAll` / `DecodeAll`) -/
structure Codec where
  Z : Bytes → Bytes
  unZ : Bytes → Option Bytes
  rt : ∀ b, unZ (Z b) = some b
  z_nil : Z [] = []

def maxInt64 : Nat := 2 ^ 63 - 1
def maxUint64 : Nat := 2 ^ 64 - 1

/-- uint64 addition -/
def add64 (a b : Nat) : Nat := (a + b) % two64
/-- uint64 subtraction -/
def sub64 (a b : Nat) : Nat := (a + two64 - b % two64) % two64

/-- `int(x)` for a uint64 `x` -/
def i64 (x : Nat) : Int :=
  if x % two64 < 2 ^ 63 then ((x % two64 : Nat) : Int) else ((x % two64 : Nat) : Int) - 2 ^ 64

/-- wrap an integer into the range of Go's `int` -/
def wrap64 (z : Int) : Int := i64 (z % 2 ^ 64).toNat

/-- `uint64(n)` for an `int` -/
def u64OfInt (z : Int) : Nat := (z % 2 ^ 64).toNat

/-- `segment.Data`: memory-backed (`NewDataBytes`, a freshly built segment, new.go:91) or
    file-backed (`NewDataFile`, a loaded segment).  For the memory-backed variant `cap = len`. -/
structure Data where
  bytes : Bytes
  mem : Bool

/-- `Data.Read(int(s), int(e))` for uint64 `s`, `e`.
    memory: `d.mem[start:end]` panics unless `0 ≤ start ≤ end ≤ len`.
    file: `make([]byte, end-start)` panics on a negative length; `ReadAt` fails on a negative
    offset, succeeds on an empty buffer, fails with io.EOF when the file is too short. -/
def Data.read (d : Data) (s e : Nat) : Res Bytes :=
  let si := i64 s
  let ei := i64 e
  if d.mem then
    if 0 ≤ si ∧ si ≤ ei ∧ ei ≤ (d.bytes.length : Int) then
      .ok ((d.bytes.drop si.toNat).take (ei - si).toNat)
    else .panic
  else
    let n := wrap64 (ei - si)
    if n < 0 then .panic
    else if si < 0 then .err
    else if n = 0 then .ok []
    else if si + n > (d.bytes.length : Int) then .err
    else .ok ((d.bytes.drop si.toNat).take n.toNat)

/-- `binary.Uvarint` with Go's result convention: `n = 0` buffer too small, `n < 0` overflow
    (docvalues.go:168,176 use the result without looking at `n`) -/
def uvarintGoAux : Bytes → Nat → Nat → Nat → Nat × Int
  | [], _, _, _ => (0, 0)
  | b :: rest, x, s, i =>
    if i = 10 then (0, -((i : Int) + 1))
    else if b < 128 then
      if i = 9 ∧ b > 1 then (0, -((i : Int) + 1)) else (x + (b * 2 ^ s) % two64, (i : Int) + 1)
    else uvarintGoAux rest (x + ((b % 128) * 2 ^ s) % two64) (s + 7) (i + 1)

def uvarintGo (buf : Bytes) : Nat × Int := uvarintGoAux buf 0 0 0

/-! ### the encoded document: terms joined by the separator -/

/-- new.go: `docTermMap[docNum] = append(append(docTermMap[docNum], term...), termSeparator)`,
    terms in ascending order -/
def docBytes (terms : List Bytes) : Bytes := terms.flatMap (· ++ [255])

/-- the loop at the end of `visitDocValues`: cut at every 0xff, drop what follows the last one;
    `cur` is the term collected so far -/
def splitSep : Bytes → Bytes → List Bytes
  | [], _ => []
  | b :: bs, cur => if b = 255 then cur :: splitSep bs [] else splitSep bs (cur ++ [b])

/-! ### writer -/

structure Coder where
  final : Bytes := []
  chunkSize : Nat
  currChunk : Nat := 0
  chunkLens : List Nat
  progressive : Bool
  chunkMetaBuf : Bytes := []
  chunkBuf : Bytes := []
  chunkMeta : List (Nat × Nat) := []      -- (DocNum, DocDvOffset)
  out : Bytes := []                        -- everything handed to `c.w` so far
deriving Repr

/-- `newChunkedContentCoder` -/
def Coder.new (chunkSize maxDocNum : Nat) (progressive : Bool) : Res Coder :=
  if chunkSize = 0 then .panic             -- integer divide by zero
  else .ok { chunkSize, progressive,
             chunkLens := List.replicate ((maxDocNum / chunkSize + 1) % two64) 0 }

/-- the loop of `flushContents` over `chunkMeta`: deltas of document numbers and end offsets -/
def encDeltas : Nat → Nat → List (Nat × Nat) → Bytes
  | _, _, [] => []
  | dd, doff, (d, o) :: r => putUvarint (sub64 d dd) ++ putUvarint (sub64 o doff) ++ encDeltas d o r

/-- `flushContents` -/
def Coder.flush (z : Codec) (c : Coder) : Res Coder :=
  let metaBuf := c.chunkMetaBuf ++ putUvarint c.chunkMeta.length ++ encDeltas 0 0 c.chunkMeta
  let compressed := z.Z c.chunkBuf
  let final := c.final ++ metaBuf ++ compressed
  if c.currChunk < c.chunkLens.length then
    let c := { c with chunkMetaBuf := metaBuf, final := final,
                      chunkLens := c.chunkLens.set c.currChunk (compressed.length + metaBuf.length) }
    if c.progressive then .ok { c with out := c.out ++ c.final, final := [] } else .ok c
  else .panic                                -- c.chunkLens[c.currChunk]: index out of range

/-- `Add` -/
def Coder.add (z : Codec) (c : Coder) (docNum : Nat) (vals : Bytes) : Res Coder :=
  if c.chunkSize = 0 then .panic else
  let chunk := docNum / c.chunkSize
  let next (c : Coder) : Res Coder :=
    .ok { c with chunkBuf := c.chunkBuf ++ vals,
                 chunkMeta := c.chunkMeta ++ [(docNum, c.chunkBuf.length + vals.length)] }
  if chunk != c.currChunk then
    match c.flush z with
    | .ok c => next { c with chunkBuf := [], chunkMetaBuf := [], chunkMeta := [], currChunk := chunk }
    | .err => .err
    | .panic => .panic
  else next c

/-- `modifyLengthsToEndOffsets` -/
def endOffsets : Nat → List Nat → List Nat
  | _, [] => []
  | acc, l :: ls => add64 acc l :: endOffsets (add64 acc l) ls

/-- `Write`: the data not yet written, the chunk end offsets, their byte length, their number;
    returns the number of bytes this call wrote -/
def Coder.write (c : Coder) : Coder × Nat :=
  let offs := endOffsets 0 c.chunkLens
  let offB := offs.flatMap putUvarint
  ({ c with out := c.out ++ c.final ++ offB ++ be 8 offB.length ++ be 8 c.chunkLens.length,
            final := [], chunkLens := offs },
   c.final.length + offB.length + 16)

def addAll (z : Codec) : Coder → List (Nat × Bytes) → Res Coder
  | c, [] => .ok c
  | c, (d, v) :: r =>
    match c.add z d v with
    | .ok c => addAll z c r
    | .err => .err
    | .panic => .panic

/-- new.go:744-766 for a field with doc values.  `count` is `s.w.Count()` on entry, `docTerms` the
    per-document byte strings (`docTermMap`, ascending document number).
    Result: the bytes written, `fdvOffsetsStart`, `fdvOffsetsEnd`. -/
def buildField (z : Codec) (cs maxDocNum count : Nat) (docTerms : List (Nat × Bytes)) :
    Res (Bytes × Nat × Nat) := do
  let c ← Coder.new cs maxDocNum false
  let c ← addAll z c (docTerms.filter (fun p => p.2.length > 0))
  let c ← c.flush z                                   -- Close
  let start := count + c.out.length                   -- fdvOffsetsStart = s.w.Count()
  let c := c.write.1
  pure (c.out, start, count + c.out.length)

/-- merge.go:371-427 for a field with doc values in some segment: the start offset is taken first,
    the chunks go to the writer as they are flushed. -/
def mergeField (z : Codec) (cs maxDocNum count : Nat) (docTerms : List (Nat × Bytes)) :
    Res (Bytes × Nat × Nat) := do
  let start := count
  let c ← Coder.new cs maxDocNum true
  let c ← addAll z c docTerms
  let c ← c.flush z
  let c := c.write.1
  pure (c.out, start, count + c.out.length)

/-! ### reader -/

structure Reader where
  curChunkNum : Nat
  chunkOffsets : List Nat
  dvDataLoc : Nat
  curChunkHeader : List (Nat × Nat)        -- (DocNum, DocDvOffset), absolute
  curChunkData : Option Bytes              -- compressed chunk; none = nil
  uncompressed : Bytes
deriving Repr, DecidableEq

/-- the loop reading the chunk end offsets through 10-byte windows -/
def readOffsets (s : Data) (pos : Nat) : Nat → Nat → Res (List Nat)
  | 0, _ => .ok []
  | k + 1, offset => do
    let locData ← s.read (add64 pos offset) (add64 (add64 pos offset) 10)
    match uvarint locData with
    | none => .err                          -- read <= 0
    | some (loc, read) => do
      let rest ← readOffsets s pos k (add64 offset read)
      pure (loc :: rest)

/-- `loadFieldDocValueReader`; `ok none` is the nil reader of a field without doc values -/
def loadFieldDocValueReader (s : Data) (dvStart dvEnd : Nat) : Res (Option Reader) :=
  if dvStart = maxUint64 then .ok none
  else if sub64 dvEnd dvStart > 16 then do
    let numChunksData ← s.read (sub64 dvEnd 8) dvEnd
    let numChunks := unbe numChunksData
    let lenData ← s.read (sub64 dvEnd 16) (sub64 dvEnd 8)
    let chunkOffsetsLen := unbe lenData
    let pos := sub64 (sub64 dvEnd 16) chunkOffsetsLen
    if numChunks ≥ 2 ^ 63 then .panic       -- make([]uint64, int(numChunks)), negative length
    else do
      let offs ← readOffsets s pos numChunks 0
      pure (some { curChunkNum := maxInt64, chunkOffsets := offs, dvDataLoc := dvStart,
                   curChunkHeader := [], curChunkData := none, uncompressed := [] })
  else .err

def idx (l : List Nat) (i : Nat) : Res Nat :=
  match l[i]? with
  | some x => .ok x
  | none => .panic

/-- `readChunkBoundary` (intcoder.go:193) -/
def readChunkBoundary (chunk : Nat) (offsets : List Nat) : Res (Nat × Nat) := do
  let start ← if chunk > 0 then idx offsets (chunk - 1) else pure 0
  let e ← idx offsets chunk
  pure (start, e)

/-- the header loop of `loadDvChunk`: `k` entries left, running `offset`, previous absolute values.
    The byte counts of `binary.Uvarint` are used unchecked. -/
def readHeader (s : Data) (metaLoc : Nat) : Nat → Nat → Nat → Nat → Res (List (Nat × Nat) × Nat)
  | 0, offset, _, _ => .ok ([], offset)
  | k + 1, offset, dd, doff => do
    let a ← s.read (add64 metaLoc offset) (add64 (add64 metaLoc offset) 10)
    let docNum := add64 (uvarintGo a).1 dd
    let offset := add64 offset (u64OfInt (uvarintGo a).2)
    let b ← s.read (add64 metaLoc offset) (add64 (add64 metaLoc offset) 10)
    let dvOff := add64 (uvarintGo b).1 doff
    let offset := add64 offset (u64OfInt (uvarintGo b).2)
    let r ← readHeader s metaLoc k offset docNum dvOff
    pure ((docNum, dvOff) :: r.1, r.2)

/-- `loadDvChunk` -/
def Reader.loadDvChunk (s : Data) (di : Reader) (chunkNumber : Nat) : Res Reader := do
  let se ← readChunkBoundary chunkNumber di.chunkOffsets
  if se.1 ≥ se.2 then
    pure { di with curChunkHeader := [], curChunkData := none, curChunkNum := chunkNumber,
                   uncompressed := [] }
  else do
    let loc := add64 di.dvDataLoc se.1
    let chunkEnd := add64 di.dvDataLoc se.2
    let nd ← s.read loc (add64 loc 10)
    match uvarint nd with
    | none => .err
    | some (numDocs, rd) =>
      let metaLoc := add64 loc rd
      if numDocs ≥ 2 ^ 63 then .panic       -- make / reslice with int(numDocs) < 0
      else do
        let h ← readHeader s metaLoc numDocs 0 0 0
        let dataLoc := add64 metaLoc h.2
        let dataLength := sub64 chunkEnd dataLoc
        let data ← s.read dataLoc (add64 dataLoc dataLength)
        pure { di with curChunkHeader := h.1, curChunkData := some data, curChunkNum := chunkNumber,
                       uncompressed := [] }

/-- the loop of `sort.Search`; `fuel ≥ j - i` iterations suffice -/
def searchAux (f : Nat → Bool) : Nat → Nat → Nat → Nat
  | 0, i, _ => i
  | fuel + 1, i, j =>
    if i < j then
      let h := (i + j) / 2
      if !f h then searchAux f fuel (h + 1) j else searchAux f fuel i h
    else i

/-- `sort.Search(n, f)` -/
def sortSearch (n : Nat) (f : Nat → Bool) : Nat := searchAux f n 0 n

/-- `readDocValueBoundary` -/
def readDocValueBoundary (chunk : Nat) (hdr : List (Nat × Nat)) : Res (Nat × Nat) :=
  match hdr[chunk]? with
  | none => .panic
  | some m =>
    if chunk > 0 then
      match hdr[chunk - 1]? with
      | some p => .ok (p.2, m.2)
      | none => .panic
    else .ok (0, m.2)

/-- the closure given to `sort.Search`: `di.curChunkHeader[i].DocNum >= docNum`.  The search only
    calls it inside the header (`searchAux_congr`: the result does not depend on the values outside
    `[0, n)`), so the `none` arm is never taken. -/
def hdrGe (hdr : List (Nat × Nat)) (docNum : Nat) (i : Nat) : Bool :=
  match hdr[i]? with
  | some m => decide (m.1 ≥ docNum)
  | none => false

/-- `getDocValueLocs` -/
def getDocValueLocs (hdr : List (Nat × Nat)) (docNum : Nat) : Res (Nat × Nat) :=
  let i := sortSearch hdr.length (hdrGe hdr docNum)
  match hdr[i]? with
  | some m => if m.1 = docNum then readDocValueBoundary i hdr else .ok (maxUint64, maxUint64)
  | none => .ok (maxUint64, maxUint64)

/-- `visitDocValues`: the terms handed to the visitor and the reader afterwards -/
def Reader.visitDocValues (z : Codec) (di : Reader) (docNum : Nat) : Res (List Bytes × Reader) := do
  let se ← getDocValueLocs di.curChunkHeader docNum
  if se.1 = maxUint64 ∨ se.2 = maxUint64 ∨ se.1 = se.2 then pure ([], di)
  else do
    let di ←
      if di.uncompressed.length > 0 then pure di
      else
        match z.unZ (di.curChunkData.getD []) with
        | none => Res.err
        | some u => pure { di with uncompressed := u }
    if se.1 ≤ se.2 ∧ se.2 ≤ di.uncompressed.length then
      pure (splitSep ((di.uncompressed.drop se.1).take (se.2 - se.1)) [], di)
    else .panic                              -- uncompressed[start:end]

/-- `visitDocumentFieldTerms` for one field: reload test, then `visitDocValues` whose error is
    dropped (`_ = dvr.visitDocValues(...)`).  `cs` is `getChunkSize(legacyChunkMode,0,0) = 1024`. -/
def Reader.visit (z : Codec) (s : Data) (cs : Nat) (di : Reader) (docNum : Nat) :
    Res (List Bytes × Reader) :=
  if cs = 0 then .panic else
  let docInChunk := docNum / cs
  (if docInChunk != di.curChunkNum then di.loadDvChunk s docInChunk else .ok di) >>= fun di =>
    match di.visitDocValues z docNum with
    | .ok r => .ok r
    | .err => .ok ([], di)
    | .panic => .panic

/-- a sequence of `VisitDocumentValues` calls on one `DocumentValueReader` -/
def Reader.visitAll (z : Codec) (s : Data) (cs : Nat) : Reader → List Nat →
    Res (List (List Bytes) × Reader)
  | di, [] => .ok ([], di)
  | di, d :: ds => do
    let r ← di.visit z s cs d
    let rs ← Reader.visitAll z s cs r.2 ds
    pure (r.1 :: rs.1, rs.2)

/-- `cloneInto`: shares the offsets, forgets the cache -/
def Reader.clone (di : Reader) : Reader :=
  { di with curChunkNum := maxInt64, curChunkHeader := [], curChunkData := none, uncompressed := [] }

/-! ### specification -/

/-- what the column holds for document `d` -/
def lookup {α : Type} (vals : List (Nat × α)) (d : Nat) : Option α :=
  (vals.find? (fun p => p.1 == d)).map (·.2)

/-- the terms of document `d` (none for a document without terms) -/
def termsOf (vals : List (Nat × List Bytes)) (d : Nat) : List Bytes := (lookup vals d).getD []

/-- the per-document byte strings the builder hands to `Add` -/
def encVals (vals : List (Nat × List Bytes)) : List (Nat × Bytes) :=
  vals.map (fun p => (p.1, docBytes p.2))

end Ice.Model.DocValues
