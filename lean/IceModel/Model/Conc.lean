import IceModel.Basic
/-
  Concurrency model of one shared segment (DESIGN.md appendix B.1): properties C09 and C19.

  Shared mutable state of a `*Segment` after construction: the FST cache `fieldFSTs` guarded by
  the mutex `m` - and, before fix f904785, the decompression buffer `storedFieldChunkUncompressed`.
  Everything else reachable from a segment is immutable.  Threads execute read operations; a
  scheduler interleaves their atomic steps arbitrarily.  Storage reads may fail (oracle).

  `dictionary(f)` (segment.go:125-176), one atomic step per line group:
      pc 0  s.m.Lock()                                   (enabled only when the mutex is free)
      pc 1  rv.fst, ok = s.fieldFSTs[f]                  (shared read, under the mutex)
      pc 2  s.data.Read(len)      -- only when !ok;  on failure: Unlock (v0: no Unlock), return err
      pc 3  s.data.Read(fst)      --                 on failure: Unlock (v0: no Unlock), return err
      pc 4  s.fieldFSTs[f] = fst                         (shared write, under the mutex)
      pc 5  s.m.Unlock(); return rv
  `VisitStoredFields(n)` after the fix:   pc 0  buf := decompress(block n) into the per-call context
                                          pc 1  visitor(...)   -- may re-enter: nested operations
                                          pc 2  return what the visitor saw last = buf
                      before the fix:     pc 0  s.scratch = decompress(block n)   (shared write, no lock)
                                          pc 1  visitor(...)
                                          pc 2  return s.scratch                  (shared read, no lock)
-/
namespace Ice.Model.Conc

abbrev Val := Nat
abbrev Tid := Nat

/-- read operations; `visit n nested` runs `nested` from inside its visitor callback -/
inductive Op where
  | dict (f : Nat)
  | visit (n : Nat) (nested : List Op)
deriving Repr

inductive Result where
  | dictOk (v : Val)
  | dictErr
  | visited (v : Val)
deriving Repr, DecidableEq

/-- which version of the code -/
structure Version where
  unlockOnError : Bool     -- fix 8a73a25
  perCallBuffer : Bool     -- fix f904785
deriving Repr, DecidableEq

def fixed : Version := { unlockOnError := true, perCallBuffer := true }
def v0 : Version := { unlockOnError := false, perCallBuffer := false }

/-- the immutable content: FST of field f, decompressed block of document n -/
structure World where
  F : Nat → Val
  B : Nat → Val

structure Shared where
  cache : List (Nat × Val) := []     -- fieldFSTs
  mutex : Option Tid := none
  scratch : Val := 0                 -- storedFieldChunkUncompressed (v0 only)
  reads : Nat := 0                   -- storage reads issued so far (index into the fault oracle)
deriving Repr

inductive Frame where
  | dict (f : Nat) (pc : Nat) (r : Option Val)
  | visit (n : Nat) (pc : Nat) (buf : Val) (nested : List Op)
deriving Repr

structure Thread where
  stack : List Frame := []           -- innermost first
  todo : List Op := []
  log : List (Op × Result) := []     -- completed operations, oldest first
deriving Repr

def Shared.lookup (s : Shared) (f : Nat) : Option Val := (s.cache.find? (fun p => p.1 == f)).map (·.2)

def frameOf : Op → Frame
  | .dict f => .dict f 0 none
  | .visit n nested => .visit n 0 0 nested

def opOf : Frame → Op
  | .dict f _ _ => .dict f
  | .visit n _ _ nested => .visit n nested

/-- one atomic step of thread `t`; `none` = the thread is blocked (waiting for the mutex) or has
    nothing left to do.  `fails i` = the i-th storage read fails. -/
def stepThread (ver : Version) (w : World) (fails : Nat → Bool) (t : Tid) (s : Shared) (th : Thread) :
    Option (Shared × Thread) :=
  match th.stack with
  | [] =>
    match th.todo with
    | [] => none
    | op :: rest => some (s, { th with stack := [frameOf op], todo := rest })
  | .dict f pc r :: up =>
    let finish (s : Shared) (res : Result) : Option (Shared × Thread) :=
      some (s, { th with stack := up, log := if up.isEmpty then th.log ++ [(.dict f, res)] else th.log })
    match pc with
    | 0 => if s.mutex.isSome then none
           else some ({ s with mutex := some t }, { th with stack := .dict f 1 r :: up })
    | 1 => match s.lookup f with
           | some v => some (s, { th with stack := .dict f 5 (some v) :: up })
           | none => some (s, { th with stack := .dict f 2 none :: up })
    | 2 => let s' := { s with reads := s.reads + 1 }
           if fails s.reads then
             finish (if ver.unlockOnError then { s' with mutex := none } else s') .dictErr
           else some (s', { th with stack := .dict f 3 none :: up })
    | 3 => let s' := { s with reads := s.reads + 1 }
           if fails s.reads then
             finish (if ver.unlockOnError then { s' with mutex := none } else s') .dictErr
           else some (s', { th with stack := .dict f 4 (some (w.F f)) :: up })
    | 4 => some ({ s with cache := (f, w.F f) :: s.cache }, { th with stack := .dict f 5 r :: up })
    | _ => finish { s with mutex := none } (match r with | some v => .dictOk v | none => .dictErr)
  | .visit n pc buf nested :: up =>
    match pc with
    | 0 => if ver.perCallBuffer then some (s, { th with stack := .visit n 1 (w.B n) nested :: up })
           else some ({ s with scratch := w.B n }, { th with stack := .visit n 1 0 nested :: up })
    | 1 => -- the visitor callback: run the nested operations (innermost first), then continue
           match nested with
           | [] => some (s, { th with stack := .visit n 2 buf [] :: up })
           | op :: rest => some (s, { th with stack := frameOf op :: .visit n 1 buf rest :: up })
    | _ => let v := if ver.perCallBuffer then buf else s.scratch
           some (s, { th with stack := up,
                              log := if up.isEmpty then th.log ++ [(.visit n nested, .visited v)] else th.log })

structure Config where
  sh : Shared := {}
  ths : List Thread := []
deriving Repr

/-- schedule one step of thread `t` (no-op if it does not exist, is blocked or is finished) -/
def sched (ver : Version) (w : World) (fails : Nat → Bool) (c : Config) (t : Tid) : Config :=
  match c.ths[t]? with
  | none => c
  | some th =>
    match stepThread ver w fails t c.sh th with
    | none => c
    | some (s', th') => { sh := s', ths := c.ths.set t th' }

def run (ver : Version) (w : World) (fails : Nat → Bool) (c : Config) (σ : List Tid) : Config :=
  σ.foldl (sched ver w fails) c

def init (progs : List (List Op)) : Config :=
  { ths := progs.map (fun p => { todo := p }) }

/-- what an operation returns when it runs alone on healthy storage -/
def alone (w : World) : Op → Result
  | .dict f => .dictOk (w.F f)
  | .visit n _ => .visited (w.B n)

/-- the shared location the next step of a thread touches, and whether it writes -/
inductive Loc where
  | cache
  | scratch
deriving DecidableEq, Repr

def nextAccess (ver : Version) (th : Thread) : Option (Loc × Bool) :=
  match th.stack with
  | .dict _ 1 _ :: _ => some (.cache, false)
  | .dict _ 4 _ :: _ => some (.cache, true)
  | .visit _ 0 _ _ :: _ => if ver.perCallBuffer then none else some (.scratch, true)
  | .visit _ 2 _ _ :: _ => if ver.perCallBuffer then none else some (.scratch, false)
  | _ => none

/-- a data race: two different threads whose next steps touch the same location, one writing -/
def Race (ver : Version) (c : Config) : Prop :=
  ∃ (t1 t2 : Nat) (th1 th2 : Thread) (l : Loc) (w1 w2 : Bool), t1 ≠ t2 ∧ c.ths[t1]? = some th1 ∧ c.ths[t2]? = some th2 ∧
    nextAccess ver th1 = some (l, w1) ∧ nextAccess ver th2 = some (l, w2) ∧ (w1 = true ∨ w2 = true)

/-- a thread that still has something to do but cannot step, while nobody else can either -/
def Stuck (ver : Version) (w : World) (fails : Nat → Bool) (c : Config) : Prop :=
  (∃ (t : Nat) (th : Thread), c.ths[t]? = some th ∧ (th.stack ≠ [] ∨ th.todo ≠ [])) ∧
  ∀ (t : Nat) (th : Thread), c.ths[t]? = some th → stepThread ver w fails t c.sh th = none

end Ice.Model.Conc
