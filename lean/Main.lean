import IceModel.Driver.Run
open Ice.Driver

partial def loop (hin hout : IO.FS.Stream) (A : Answerer) (st : St) : IO Unit := do
  let line ← hin.getLine
  if line.isEmpty then return ()
  let line := (line.dropEndWhile (fun c => c == '\n' || c == '\r')).toString
  let (st', out) := step A st line
  match out with
  | some o => hout.putStrLn o
  | none => pure ()
  loop hin hout A st'

def main (args : List String) : IO UInt32 := do
  let via := match args with
    | ["model"] => Via.model
    | _ => Via.spec
  let hin ← IO.getStdin
  let hout ← IO.getStdout
  loop hin hout (if via == Via.model then modelAnswerer else specAnswerer) { via := via }
  hout.flush
  return 0
