package main

import (
	"bytes"
	"encoding/binary"
	"fmt"
	"hash/crc32"
	"io"
	"math"
	"os"
	"path/filepath"
	"runtime/debug"
	"sort"
	"strconv"
	"strings"
	"sync/atomic"
	"time"

	"github.com/RoaringBitmap/roaring"
	segment "github.com/blugelabs/bluge_segment_api"
	ice "github.com/blugelabs/ice/v2"

	"icecheck/iceref"
)

// iceAPI is one implementation of the package (the current tree, or the frozen reference).
type iceAPI struct {
	name     string
	New      func(docs []segment.Document, norm func(string, int) float32, mode uint32) (segment.Segment, uint64, error)
	NewPub   func(docs []segment.Document, norm func(string, int) float32) (segment.Segment, uint64, error)
	Merge    func(segs []segment.Segment, drops []*roaring.Bitmap, w io.Writer, mode uint32, closeCh chan struct{}) ([][]uint64, uint64, error)
	MergePub func(segs []segment.Segment, drops []*roaring.Bitmap, bufSize int) segment.Merger
	Load     func(d *segment.Data) (segment.Segment, error)
}

var curAPI = &iceAPI{name: "current", New: ice.VerifNew, NewPub: ice.New, Merge: ice.VerifMerge, MergePub: ice.Merge, Load: ice.Load}
var refAPI = &iceAPI{name: "reference", New: iceref.VerifNew, NewPub: iceref.New, Merge: iceref.VerifMerge, MergePub: iceref.Merge, Load: iceref.Load}

// RSeg is one real segment of a case.  `seg` belongs to the writing implementation (and is what
// merges consume); `obs` is what queries observe: the same object, or - in cross-reading mode -
// the segment's persisted bytes loaded by the other implementation.
type RSeg struct {
	seg     segment.Segment
	obs     segment.Segment
	err     string // non-empty: construction failed (err | panic | hang)
	docnums [][]uint64
	isMerge bool
	wroteOK bool // merge: returned byte count == bytes received
	file    *os.File
}

type World struct {
	c    *Case
	segs []*RSeg
}

var tmpSeq uint64

func workDir() string {
	d := os.Getenv("VERIF_WORK")
	if d == "" {
		d = "/verif/.work"
	}
	return d
}

// guard runs f with panic recovery and a timeout; the string result is a transcript token.
func guard(timeout time.Duration, f func() string) (res string) {
	ch := make(chan string, 1)
	go func() {
		defer func() {
			if r := recover(); r != nil {
				ch <- "panic"
				if os.Getenv("VERIF_DEBUG") != "" {
					fmt.Fprintf(os.Stderr, "panic: %v\n%s\n", r, debug.Stack())
				}
			}
		}()
		ch <- f()
	}()
	select {
	case r := <-ch:
		return r
	case <-time.After(timeout * time.Duration(atomic.LoadInt64(&slowFactor))):
		return "hang"
	}
}

// slowFactor stretches every guard timeout; a leg that saw a "hang" repeats the run with a larger
// factor before it believes it (a starved machine is not a deadlock).
var slowFactor int64 = 1

const opTimeout = 60 * time.Second

func persist(s segment.Segment) ([]byte, int64, error) {
	var buf bytes.Buffer
	n, err := s.WriteTo(&buf, nil)
	return buf.Bytes(), n, err
}

func bitmapOf(l []uint32) *roaring.Bitmap {
	bm := roaring.New()
	for _, v := range l {
		bm.Add(v)
	}
	return bm
}

// disturbBatches: see the pool disturbance in BuildWorldX.  One batch with two fields, one with
// five; names on both sides of `_id` in byte order; stored values, doc values, locations.
var disturbBatches = func() [][]Doc {
	mk := func(names ...string) []Doc {
		var docs []Doc
		for i := 0; i < 2; i++ {
			d := Doc{{Name: []byte("_id"), Length: 1, Store: true, Value: []byte{'q', byte('0' + i)},
				Terms: []TermOcc{{Term: []byte{'q', byte('0' + i)}, Freq: 1}}}}
			for j, n := range names {
				d = append(d, FieldInst{Name: []byte(n), Length: 2, Store: j%2 == 0, DV: true, Value: []byte("dist-" + n),
					Terms: []TermOcc{{Term: []byte("dq" + n), Freq: 2, Locs: []Loc{{Pos: 1, Start: 2, End: 3}, {Field: []byte("_id"), Pos: 4, Start: 5, End: 6}}}}})
			}
			docs = append(docs, d)
		}
		return docs
	}
	return [][]Doc{mk("~d"), mk("!a", "!b", "~c", "~d")}
}()

// BuildWorld constructs every segment of the case with the current code.
func BuildWorld(c *Case) *World { return BuildWorldX(c, curAPI, curAPI) }

// BuildWorldX constructs the segments with `wr` and lets `rd` read them.
func BuildWorldX(c *Case, wr, rd *iceAPI) *World {
	w := &World{c: c}
	for i := range c.Segs {
		sd := &c.Segs[i]
		rs := &RSeg{}
		r := guard(opTimeout, func() string {
			switch sd.Kind {
			case "build":
				var s segment.Segment
				var err error
				if sd.API == "pub" {
					s, _, err = wr.NewPub(toDocs(sd.Docs), normFunc(c.Norm))
				} else {
					s, _, err = wr.New(toDocs(sd.Docs), normFunc(c.Norm), sd.Mode)
				}
				if err != nil {
					return "err"
				}
				rs.seg = s
				// pool disturbance: two further builds with other field names right after this one, on
				// the same goroutine, so that a pooled builder object is (very likely) reused at once.
				// A segment that still aliases a slice or map of the builder then changes under the
				// queries below - building another segment must never alter an existing one.
				for _, db := range disturbBatches {
					if sd.API == "pub" {
						_, _, _ = wr.NewPub(toDocs(db), normFunc(c.Norm))
					} else {
						_, _, _ = wr.New(toDocs(db), normFunc(c.Norm), sd.Mode)
					}
				}
			case "merge":
				rs.isMerge = true
				segs := make([]segment.Segment, len(sd.Ins))
				drops := make([]*roaring.Bitmap, len(sd.Ins))
				for j, in := range sd.Ins {
					src := w.segs[in.Seg]
					if src.err != "" {
						return "srcerr"
					}
					segs[j] = src.seg
					if !in.Nil {
						drops[j] = bitmapOf(in.Drops)
					}
				}
				var buf bytes.Buffer
				var n int64
				if sd.API == "pub" {
					bs := sd.BufSize
					if bs <= 0 {
						bs = 4096
					}
					m := wr.MergePub(segs, drops, bs)
					var err error
					n, err = m.WriteTo(&buf, nil)
					if err != nil {
						return "err"
					}
					rs.docnums = m.DocumentNumbers()
				} else {
					dn, nn, err := wr.Merge(segs, drops, &buf, sd.Mode, nil)
					if err != nil {
						return "err"
					}
					n = int64(nn)
					rs.docnums = dn
				}
				rs.wroteOK = n == int64(buf.Len())
				for j, in := range sd.Ins {
					if !in.Nil && !sameU32(drops[j].ToArray(), in.Drops) {
						return "drops-mutated"
					}
				}
				s, err := wr.Load(segment.NewDataBytes(buf.Bytes()))
				if err != nil {
					return "loaderr"
				}
				rs.seg = s
			case "load":
				src := w.segs[sd.Src]
				if src.err != "" {
					return "srcerr"
				}
				b, _, err := persist(src.seg)
				if err != nil {
					return "persisterr"
				}
				rs.docnums = src.docnums
				rs.isMerge = src.isMerge
				rs.wroteOK = src.wroteOK
				if sd.Backing == "file" {
					dir := filepath.Join(workDir(), "tmp")
					_ = os.MkdirAll(dir, 0o755)
					p := filepath.Join(dir, fmt.Sprintf("seg-%d-%d.ice", os.Getpid(), atomic.AddUint64(&tmpSeq, 1)))
					if err := os.WriteFile(p, b, 0o644); err != nil {
						return "ioerr"
					}
					f, err := os.Open(p)
					if err != nil {
						return "ioerr"
					}
					_ = os.Remove(p) // stays readable through the open descriptor
					rs.file = f
					d, err := segment.NewDataFile(f)
					if err != nil {
						return "ioerr"
					}
					s, err := wr.Load(d)
					if err != nil {
						return "loaderr"
					}
					rs.seg = s
				} else {
					// exact-capacity copy: a read past the end faults instead of silently succeeding
					bb := make([]byte, len(b))
					copy(bb, b)
					s, err := wr.Load(segment.NewDataBytes(bb))
					if err != nil {
						return "loaderr"
					}
					rs.seg = s
				}
			}
			rs.obs = rs.seg
			if rd != wr {
				b, _, err := persist(rs.seg)
				if err != nil {
					return "persisterr"
				}
				bb := make([]byte, len(b))
				copy(bb, b)
				o, err := rd.Load(segment.NewDataBytes(bb))
				if err != nil {
					return "xloaderr"
				}
				rs.obs = o
			}
			return ""
		})
		rs.err = r
		w.segs = append(w.segs, rs)
	}
	return w
}

func (w *World) Close() {
	for _, s := range w.segs {
		if s.file != nil {
			s.file.Close()
		}
	}
}

// ReuseCtx carries objects from earlier lookups that later lookups hand back as prealloc (C13).
type ReuseCtx struct {
	on                                        bool
	pls                                       []segment.PostingsList
	pis                                       []segment.PostingsIterator
	dicts                                     map[string]segment.Dictionary
	dvrs                                      map[string]segment.DocumentValueReader
	n                                         uint64
	salt                                      uint64
	reusedPL, reusedPI, reusedDict, reusedDVR int
	// bitmaps handed to ReplaceActual (they stay the caller's) and what they held at that time
	handed, handedCopy []*roaring.Bitmap
}

// handedIntact: none of the bitmaps handed to ReplaceActual was changed by later lookups.
func (r *ReuseCtx) handedIntact() bool {
	for i := range r.handed {
		if !r.handed[i].Equals(r.handedCopy[i]) {
			return false
		}
	}
	return true
}

func newReuse(on bool, salt uint64) *ReuseCtx {
	return &ReuseCtx{on: on, salt: salt, dicts: map[string]segment.Dictionary{}, dvrs: map[string]segment.DocumentValueReader{}}
}

func (r *ReuseCtx) pick(n int) int { // -1 = none
	r.n++
	h := mix64(r.salt + r.n*0x9e3779b97f4a7c15)
	if n == 0 || h%5 == 0 {
		return -1
	}
	if h%5 <= 2 {
		return n - 1 // most recent
	}
	return int((h >> 8) % uint64(n))
}

func sameU32(a, b []uint32) bool {
	if len(a) != len(b) {
		return false
	}
	for i := range a {
		if a[i] != b[i] {
			return false
		}
	}
	return true
}

func parseU32List(s string) []uint32 {
	if s == "-" || s == "~" {
		return []uint32{}
	}
	var out []uint32
	for _, x := range strings.Split(s, ",") {
		v, _ := strconv.ParseUint(x, 10, 32)
		out = append(out, uint32(v))
	}
	return out
}

func fmtPosting(p segment.Posting, f, n, l bool) string {
	if p == nil {
		return "nil"
	}
	var sb strings.Builder
	sb.WriteString(strconv.FormatUint(p.Number(), 10))
	if f {
		fmt.Fprintf(&sb, ":f%d", p.Frequency())
	}
	if n {
		fmt.Fprintf(&sb, ":n%d", math.Float32bits(float32(p.Norm())))
	}
	if l {
		sb.WriteString(":l")
		for i, loc := range p.Locations() {
			if i > 0 {
				sb.WriteByte(',')
			}
			fmt.Fprintf(&sb, "%s/%d/%d/%d", hx([]byte(loc.Field())), loc.Pos(), loc.Start(), loc.End())
		}
	}
	return sb.String()
}

func (w *World) segOf(tok string) (*RSeg, string) {
	i, err := strconv.Atoi(tok)
	if err != nil || i < 0 || i >= len(w.segs) {
		return nil, "bad-query"
	}
	s := w.segs[i]
	if s.err != "" {
		return nil, "segerr:" + s.err
	}
	return s, ""
}

func (w *World) dictOf(rs *RSeg, segTok string, field []byte, rc *ReuseCtx) (segment.Dictionary, error) {
	key := segTok + "/" + string(field)
	if rc != nil && rc.on {
		if d, ok := rc.dicts[key]; ok {
			rc.reusedDict++
			return d, nil
		}
	}
	d, err := rs.seg.Dictionary(string(field))
	if err == nil && rc != nil && rc.on {
		rc.dicts[key] = d
	}
	return d, err
}

// Exec answers one query with the real code.  Never panics.
func (w *World) Exec(q Query, rc *ReuseCtx) string {
	return guard(opTimeout, func() string { return w.exec(q, rc) })
}

func (w *World) exec(q Query, rc *ReuseCtx) string {
	if len(q) < 2 {
		return "bad-query"
	}
	first := q[1]
	if i := strings.Index(first, ","); i >= 0 {
		first = first[:i]
	}
	rs, e := w.segOf(first)
	if rs == nil {
		return e
	}
	seg := rs.obs
	switch q[0] {
	case "fields":
		var out []string
		for _, f := range seg.Fields() {
			out = append(out, hx([]byte(f)))
		}
		return strings.Join(out, " ")
	case "count":
		return strconv.FormatUint(seg.Count(), 10)
	case "mergen":
		if rs.wroteOK {
			return "ok"
		}
		return "bad"
	case "dict":
		field, _ := unhx(q[2])
		var lo, hi []byte
		if q[3] != "~" {
			lo, _ = unhx(q[3])
		}
		if q[4] != "~" {
			hi, _ = unhx(q[4])
		}
		var aut segment.Automaton = autAny{}
		if strings.HasPrefix(q[5], "pfx:") {
			p, _ := unhx(q[5][4:])
			aut = autPrefix{p}
		}
		d, err := w.dictOf(rs, q[1], field, rc)
		if err != nil {
			return "err"
		}
		it := d.Iterator(aut, lo, hi)
		var out []string
		for {
			e, err := it.Next()
			if err != nil {
				return "err"
			}
			if e == nil {
				break
			}
			out = append(out, fmt.Sprintf("%s=%d", hx([]byte(e.Term())), e.Count()))
		}
		// a dictionary of our own (not one kept for reuse) is closed when we are done with it, as a
		// careful caller does: closing it must not disturb anybody else's dictionary of that field
		if rc == nil || !rc.on {
			_ = it.Close()
			_ = d.Close()
		}
		return strings.Join(out, " ")
	case "contains":
		field, _ := unhx(q[2])
		term, _ := unhx(q[3])
		d, err := w.dictOf(rs, q[1], field, rc)
		if err != nil {
			return "err"
		}
		ok, err := d.Contains(term)
		if err != nil {
			return "err"
		}
		if rc == nil || !rc.on {
			_ = d.Close()
		}
		return b2s(ok)
	case "iter", "iterR":
		field, _ := unhx(q[2])
		term, _ := unhx(q[3])
		var except *roaring.Bitmap
		if q[4] != "~" {
			except = bitmapOf(parseU32List(q[4]))
		}
		k := 5
		var repl *roaring.Bitmap
		if q[0] == "iterR" {
			repl = bitmapOf(parseU32List(q[5]))
			k = 6
		}
		fl := q[k]
		f, n, l := fl[0] == '1', fl[1] == '1', fl[2] == '1'
		ops := q[k+1:]
		d, err := w.dictOf(rs, q[1], field, rc)
		if err != nil {
			return "err"
		}
		var prePL segment.PostingsList
		var prePI segment.PostingsIterator
		if rc != nil && rc.on {
			if i := rc.pick(len(rc.pls)); i >= 0 {
				prePL = rc.pls[i]
				rc.reusedPL++
			}
			if i := rc.pick(len(rc.pis)); i >= 0 {
				prePI = rc.pis[i]
				rc.reusedPI++
			}
		}
		pl, err := d.PostingsList(term, except, prePL)
		if err != nil {
			return "err"
		}
		cnt := pl.Count()
		it, err := pl.Iterator(f, n, l, prePI)
		if err != nil {
			return "err"
		}
		if rc != nil && rc.on {
			// a reused object must not be kept twice
			if pl != prePL {
				rc.pls = append(rc.pls, pl)
			}
			if it != prePI {
				rc.pis = append(rc.pis, it)
			}
		}
		if repl != nil {
			if o, ok := it.(segment.OptimizablePostingsIterator); ok {
				if _, onehit := o.DocNum1Hit(); !onehit {
					if abm := o.ActualBitmap(); abm != nil {
						// the replacement must be a subset of the list's postings
						mine := roaring.And(repl, abm)
						o.ReplaceActual(mine)
						if rc != nil {
							rc.handed = append(rc.handed, mine)
							rc.handedCopy = append(rc.handedCopy, mine.Clone())
						}
					}
				}
			}
		}
		var out []string
		limit := int(seg.Count()) + 3
		for _, op := range ops {
			switch {
			case op == "n":
				p, err := it.Next()
				if err != nil {
					out = append(out, "err") // keep going: what do later calls on this iterator say?
					continue
				}
				out = append(out, fmtPosting(p, f, n, l))
			case op == "w":
				for i := 0; ; i++ {
					if i > limit {
						return strings.Join(append(out, "runaway"), " ")
					}
					p, err := it.Next()
					if err != nil {
						// what do later calls on this iterator say?  (a few more, then stop)
						out = append(out, "err")
						for k := 0; k < 4; k++ {
							p, err = it.Next()
							if err != nil {
								out = append(out, "err")
								continue
							}
							out = append(out, fmtPosting(p, f, n, l))
							if p == nil {
								break
							}
						}
						return strings.Join(out, " ")
					}
					out = append(out, fmtPosting(p, f, n, l))
					if p == nil {
						break
					}
				}
			case op[0] == 'a':
				t, _ := strconv.ParseUint(op[1:], 10, 64)
				p, err := it.Advance(t)
				if err != nil {
					out = append(out, "err")
					continue
				}
				out = append(out, fmtPosting(p, f, n, l))
			default:
				return "bad-query"
			}
		}
		if except != nil && !sameU32(except.ToArray(), parseU32List(q[4])) {
			return "except-mutated"
		}
		if rc != nil && !rc.handedIntact() {
			return "replace-actual-bitmap-mutated"
		}
		if q[0] == "iter" {
			out = append(out, fmt.Sprintf("cnt=%d", cnt))
			out = append(out, fmt.Sprintf("icnt=%d", it.Count()))
		}
		return strings.Join(out, " ")
	case "lfields", "lstored", "lterm", "ldv":
		b, _, err := persist(seg)
		if err != nil {
			return "err"
		}
		lf, err := parseLFile(b)
		if err != nil {
			return "parse-err:" + err.Error()
		}
		var out string
		switch q[0] {
		case "lfields":
			out = lf.fieldsDump()
		case "lstored":
			out, err = lf.storedDump()
		case "lterm":
			f, _ := unhx(q[2])
			t, _ := unhx(q[3])
			out, err = lf.termDump(string(f), t)
		case "ldv":
			f, _ := unhx(q[2])
			out, err = lf.dvDump(string(f))
		}
		if err != nil {
			return "parse-err:" + err.Error()
		}
		return out
	case "stored":
		n, _ := strconv.ParseUint(q[2], 10, 64)
		stop, _ := strconv.Atoi(q[3])
		var out []string
		err := seg.VisitStoredFields(n, func(field string, value []byte) bool {
			out = append(out, hx([]byte(field))+":"+hx(value))
			return !(stop >= 0 && len(out) >= stop)
		})
		if err != nil {
			return "err"
		}
		if stop == 0 {
			// the visitor is asked at least once before it can say stop
			if len(out) > 1 {
				return "overrun"
			}
			out = nil
		}
		return strings.Join(out, " ")
	case "dv":
		var fields []string
		if q[2] != "." {
			for _, h := range strings.Split(q[2], ",") {
				b, _ := unhx(h)
				fields = append(fields, string(b))
			}
		}
		key := q[1] + "/" + q[2]
		var r segment.DocumentValueReader
		if rc != nil && rc.on {
			if x, ok := rc.dvrs[key]; ok {
				r = x
				rc.reusedDVR++
			}
		}
		if r == nil {
			var err error
			r, err = seg.DocumentValueReader(fields)
			if err != nil {
				return "err"
			}
			if rc != nil && rc.on {
				rc.dvrs[key] = r
			}
		}
		var parts []string
		for _, ds := range parseU32List(q[3]) {
			var out []string
			err := r.VisitDocumentValues(uint64(ds), func(field string, term []byte) {
				out = append(out, hx([]byte(field))+":"+hx(term))
			})
			if err != nil {
				// keep visiting with the same reader: what do later calls on it say?
				parts = append(parts, "err")
				continue
			}
			parts = append(parts, strings.Join(out, " "))
		}
		return strings.Join(parts, " | ")
	case "stats":
		field, _ := unhx(q[2])
		st, err := seg.CollectionStats(string(field))
		if err != nil {
			return "err"
		}
		return fmt.Sprintf("%d %d %d", st.TotalDocumentCount(), st.DocumentCount(), st.SumTotalTermFrequency())
	case "statsmerge":
		// q statsmerge <segs comma-separated> <field>: the first segment's statistics object is the
		// accumulator, the others are merged into it (the usual aggregation); then the field is
		// queried once more on every segment to see that nothing was disturbed
		field, _ := unhx(q[2])
		var acc segment.CollectionStats
		var parts []string
		idxs := strings.Split(q[1], ",")
		for _, ix := range idxs {
			r2, e2 := w.segOf(ix)
			if r2 == nil {
				return e2
			}
			st, err := r2.obs.CollectionStats(string(field))
			if err != nil {
				return "err"
			}
			if acc == nil {
				acc = st
			} else {
				acc.Merge(st)
			}
		}
		parts = append(parts, fmt.Sprintf("%d %d %d", acc.TotalDocumentCount(), acc.DocumentCount(), acc.SumTotalTermFrequency()))
		for _, ix := range idxs {
			r2, _ := w.segOf(ix)
			st, err := r2.obs.CollectionStats(string(field))
			if err != nil {
				return "err"
			}
			parts = append(parts, fmt.Sprintf("%d %d %d", st.TotalDocumentCount(), st.DocumentCount(), st.SumTotalTermFrequency()))
		}
		return strings.Join(parts, " | ")
	case "match":
		var terms []segment.Term
		for _, p := range q[2:] {
			ft := strings.SplitN(p, ":", 2)
			f, _ := unhx(ft[0])
			t, _ := unhx(ft[1])
			terms = append(terms, &hQTerm{string(f), t})
		}
		bm, err := seg.DocsMatchingTerms(terms)
		if err != nil {
			return "err"
		}
		arr := bm.ToArray()
		sort.Slice(arr, func(i, j int) bool { return arr[i] < arr[j] })
		var out []string
		for _, v := range arr {
			out = append(out, strconv.FormatUint(uint64(v), 10))
		}
		return strings.Join(out, ",")
	case "docnums":
		if !rs.isMerge {
			return "bad-query"
		}
		var parts []string
		for _, l := range rs.docnums {
			var out []string
			for _, v := range l {
				if v == math.MaxInt64 {
					out = append(out, "x")
				} else {
					out = append(out, strconv.FormatUint(v, 10))
				}
			}
			parts = append(parts, strings.Join(out, ","))
		}
		return strings.Join(parts, " | ")
	case "crc":
		b, n, err := persist(seg)
		if err != nil {
			return "err"
		}
		if n != int64(len(b)) {
			return fmt.Sprintf("bad:count n=%d len=%d", n, len(b))
		}
		if len(b) < 44 {
			return "bad:short"
		}
		if crc32.ChecksumIEEE(b[:len(b)-4]) != binary.BigEndian.Uint32(b[len(b)-4:]) {
			return "bad:crc"
		}
		ft := b[len(b)-44:]
		nd := binary.BigEndian.Uint64(ft[0:8])
		cm := binary.BigEndian.Uint32(ft[32:36])
		ver := binary.BigEndian.Uint32(ft[36:40])
		ls, err := ice.Load(segment.NewDataBytes(b))
		if err != nil {
			return "bad:load"
		}
		type footerView interface {
			Count() uint64
			ChunkMode() uint32
			Version() uint32
		}
		is := ls.(footerView)
		if is.Count() != nd || is.ChunkMode() != cm || is.Version() != ver {
			return "bad:footer-fields"
		}
		if orig, ok := seg.(footerView); ok {
			if orig.Count() != nd || orig.ChunkMode() != cm {
				return "bad:footer-vs-original"
			}
		}
		// CRC(): "the CRC value stored in the file footer" - the loaded copy and the original
		// must both report what the file ends with
		type crcView interface{ CRC() uint32 }
		fileCRC := binary.BigEndian.Uint32(b[len(b)-4:])
		if lc, ok := ls.(crcView); ok && lc.CRC() != fileCRC {
			return fmt.Sprintf("bad:crc-accessor-loaded %08x file %08x", lc.CRC(), fileCRC)
		}
		if oc, ok := seg.(crcView); ok && oc.CRC() != fileCRC {
			return fmt.Sprintf("bad:crc-accessor-original %08x file %08x", oc.CRC(), fileCRC)
		}
		return fmt.Sprintf("ok %d %d %d", nd, cm, ver)
	case "repersist":
		b1, _, err := persist(seg)
		if err != nil {
			return "err"
		}
		s2, err := ice.Load(segment.NewDataBytes(b1))
		if err != nil {
			return "err"
		}
		b2, n2, err := persist(s2)
		if err != nil {
			return "err"
		}
		if n2 != int64(len(b2)) {
			return "bad:count"
		}
		if !bytes.Equal(b1, b2) {
			return "differ"
		}
		return "same"
	}
	return "bad-query"
}

// sameKinds: which query kinds take part in a metamorphic A-vs-B comparison.
func sameKind(mode, kind string) bool {
	switch kind {
	case "docnums", "mergen", "crc", "repersist":
		return false
	case "fields", "stats":
		return mode == "assoc"
	}
	return true
}

type RunOut struct {
	Lines     []string
	SameDiffs []string // human-readable differences of `same` pairs
	SameKinds []string // the query kind of each difference
	Reuse     *ReuseCtx
}

// RunCase executes all queries of a case sequentially.
func RunCase(c *Case, reuse bool) *RunOut {
	w := BuildWorld(c)
	defer w.Close()
	rc := newReuse(reuse, hashString(c.ID))
	out := &RunOut{Lines: make([]string, len(c.Queries)), Reuse: rc}
	for i, q := range c.Queries {
		out.Lines[i] = fmt.Sprintf("r %s %d %s", c.ID, i, w.Exec(q, rc))
	}
	for _, sp := range c.Sames {
		as := strconv.Itoa(sp.A)
		for _, q := range c.Queries {
			if len(q) < 2 || q[1] != as || !sameKind(sp.Mode, q[0]) {
				continue
			}
			qb := append(Query(nil), q...)
			qb[1] = strconv.Itoa(sp.B)
			ra := w.Exec(q, nil)
			rb := w.Exec(qb, nil)
			if ra != rb {
				out.SameDiffs = append(out.SameDiffs, fmt.Sprintf("same(%s) seg %d vs seg %d: %s\n  A: %s\n  B: %s",
					sp.Mode, sp.A, sp.B, strings.Join(q, " "), ra, rb))
				out.SameKinds = append(out.SameKinds, q[0])
			}
		}
	}
	return out
}
