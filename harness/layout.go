package main

import (
	"encoding/binary"
	"encoding/hex"
	"fmt"
	"strings"

	"github.com/RoaringBitmap/roaring"
	"github.com/blevesearch/vellum"
	"github.com/klauspost/compress/zstd"
)

// Format-level correspondence (DESIGN.md 2.5 item 3): the harness's own parser of the
// version-2 layout turns the bytes the real code wrote into a *logical file* - sections with
// their zstd frames decoded - which is compared with what the Lean byte-level models
// (Model/Stored, Model/ChunkBytes, Model/DocValues, with the identity codec) produce for the
// same case.  The parser follows the layout pinned in DESIGN.md appendix A; it shares no code
// with the package under test.

var zdec, _ = zstd.NewReader(nil)

func unzstd(b []byte) ([]byte, error) {
	if len(b) == 0 {
		return nil, nil
	}
	return zdec.DecodeAll(b, nil)
}

type lfile struct {
	b                                    []byte
	numDocs, storedIdx, fieldsIdx, dvOff uint64
	chunkMode, version                   uint32
	fieldNames                           []string
	dictLocs, fieldDocs, fieldFreqs      []uint64
	dataLen                              int
}

func uv(b []byte, off int) (uint64, int, error) {
	if off < 0 || off > len(b) {
		return 0, 0, fmt.Errorf("offset %d out of range", off)
	}
	v, n := binary.Uvarint(b[off:])
	if n <= 0 {
		return 0, 0, fmt.Errorf("bad uvarint at %d", off)
	}
	return v, n, nil
}

func parseLFile(b []byte) (*lfile, error) {
	if len(b) < 44 {
		return nil, fmt.Errorf("short file")
	}
	f := &lfile{b: b, dataLen: len(b) - 44}
	ft := b[len(b)-44:]
	f.numDocs = binary.BigEndian.Uint64(ft[0:])
	f.storedIdx = binary.BigEndian.Uint64(ft[8:])
	f.fieldsIdx = binary.BigEndian.Uint64(ft[16:])
	f.dvOff = binary.BigEndian.Uint64(ft[24:])
	f.chunkMode = binary.BigEndian.Uint32(ft[32:])
	f.version = binary.BigEndian.Uint32(ft[36:])
	for p := int(f.fieldsIdx); p+8 <= f.dataLen; p += 8 {
		addr := int(binary.BigEndian.Uint64(b[p:]))
		dl, n, err := uv(b, addr)
		if err != nil {
			return nil, err
		}
		addr += n
		nl, n, err := uv(b, addr)
		if err != nil {
			return nil, err
		}
		addr += n
		if addr+int(nl) > f.dataLen {
			return nil, fmt.Errorf("field name out of range")
		}
		name := string(b[addr : addr+int(nl)])
		addr += int(nl)
		fd, n, err := uv(b, addr)
		if err != nil {
			return nil, err
		}
		addr += n
		ff, _, err := uv(b, addr)
		if err != nil {
			return nil, err
		}
		f.fieldNames = append(f.fieldNames, name)
		f.dictLocs = append(f.dictLocs, dl)
		f.fieldDocs = append(f.fieldDocs, fd)
		f.fieldFreqs = append(f.fieldFreqs, ff)
	}
	return f, nil
}

func hexOrDash(b []byte) string {
	if len(b) == 0 {
		return "-"
	}
	return hex.EncodeToString(b)
}

// storedDump: blocks (decompressed), number of chunk offsets, per-document offset in its block
func (f *lfile) storedDump() (string, error) {
	sio := int(f.storedIdx)
	if sio < 8 || sio > f.dataLen {
		return "", fmt.Errorf("stored index offset %d out of range", sio)
	}
	n := int(binary.BigEndian.Uint32(f.b[sio-4:]))
	l := int(binary.BigEndian.Uint32(f.b[sio-8:]))
	p := sio - 8 - l
	var offs []uint64
	for i := 0; i < n; i++ {
		v, k, err := uv(f.b, p)
		if err != nil {
			return "", err
		}
		offs = append(offs, v)
		p += k
	}
	var blocks []string
	for i := 0; i+1 < len(offs); i++ {
		if offs[i] == offs[i+1] {
			continue
		}
		raw, err := unzstd(f.b[offs[i]:offs[i+1]])
		if err != nil {
			return "", err
		}
		blocks = append(blocks, hexOrDash(raw))
	}
	var docOffs []string
	for d := 0; d < int(f.numDocs); d++ {
		docOffs = append(docOffs, fmt.Sprint(binary.BigEndian.Uint64(f.b[sio+8*d:])))
	}
	return fmt.Sprintf("noffsets=%d blocks=%s docoffs=%s", n, strings.Join(blocks, ","), strings.Join(docOffs, ",")), nil
}

func (f *lfile) fieldID(name string) int {
	for i, n := range f.fieldNames {
		if n == name {
			return i
		}
	}
	return -1
}

func (f *lfile) streamDump(off uint64) (string, error) {
	if off == 0 {
		return "none", nil
	}
	p := int(off)
	nch, k, err := uv(f.b, p)
	if err != nil {
		return "", err
	}
	p += k
	var ends []uint64
	for i := 0; i < int(nch); i++ {
		v, k, err := uv(f.b, p)
		if err != nil {
			return "", err
		}
		ends = append(ends, v)
		p += k
	}
	var chunks []string
	var start uint64
	for _, e := range ends {
		raw, err := unzstd(f.b[p+int(start) : p+int(e)])
		if err != nil {
			return "", err
		}
		chunks = append(chunks, hexOrDash(raw))
		start = e
	}
	return fmt.Sprintf("%d:%s", nch, strings.Join(chunks, ",")), nil
}

// termDump: encoding of one term's postings
func (f *lfile) termDump(field string, term []byte) (string, error) {
	id := f.fieldID(field)
	if id < 0 || f.dictLocs[id] == 0 {
		return "absent", nil
	}
	p := int(f.dictLocs[id])
	fl, k, err := uv(f.b, p)
	if err != nil {
		return "", err
	}
	fst, err := vellum.Load(f.b[p+k : p+k+int(fl)])
	if err != nil {
		return "", err
	}
	v, ok, err := fst.Get(term)
	if err != nil {
		return "", err
	}
	if !ok {
		return "absent", nil
	}
	if v>>62 == 2 {
		return fmt.Sprintf("1hit doc=%d norm=%d", v&0x7fffffff, (v>>31)&0x7fffffff), nil
	}
	p = int(v)
	tf, k, err := uv(f.b, p)
	if err != nil {
		return "", err
	}
	p += k
	ld, k, err := uv(f.b, p)
	if err != nil {
		return "", err
	}
	p += k
	loc := ld
	if ld > 0 && tf > 0 {
		loc = ld + tf
	}
	rl, k, err := uv(f.b, p)
	if err != nil {
		return "", err
	}
	p += k
	bm := roaring.New()
	if _, err := bm.FromBuffer(append([]byte{}, f.b[p:p+int(rl)]...)); err != nil {
		return "", err
	}
	var docs []string
	for _, d := range bm.ToArray() {
		docs = append(docs, fmt.Sprint(d))
	}
	fn, err := f.streamDump(tf)
	if err != nil {
		return "", err
	}
	lc, err := f.streamDump(loc)
	if err != nil {
		return "", err
	}
	return fmt.Sprintf("docs=%s fn=%s loc=%s", strings.Join(docs, ","), fn, lc), nil
}

// dvDump: the doc-value chunks of one field
func (f *lfile) dvDump(field string) (string, error) {
	id := f.fieldID(field)
	if id < 0 || f.numDocs == 0 || f.dvOff == ^uint64(0) {
		return "none", nil
	}
	p := int(f.dvOff)
	var start, end uint64
	for i := 0; i <= id; i++ {
		s, k, err := uv(f.b, p)
		if err != nil {
			return "", err
		}
		p += k
		e, k, err := uv(f.b, p)
		if err != nil {
			return "", err
		}
		p += k
		start, end = s, e
	}
	if start == ^uint64(0) {
		return "none", nil
	}
	nch := binary.BigEndian.Uint64(f.b[end-8:])
	ol := binary.BigEndian.Uint64(f.b[end-16:])
	p = int(end - 16 - ol)
	var ends []uint64
	for i := 0; i < int(nch); i++ {
		v, k, err := uv(f.b, p)
		if err != nil {
			return "", err
		}
		ends = append(ends, v)
		p += k
	}
	var out []string
	var cs uint64
	for ci, e := range ends {
		if e == cs {
			continue
		}
		q := int(start + cs)
		lim := int(start + e)
		nd, k, err := uv(f.b, q)
		if err != nil {
			return "", err
		}
		q += k
		var hdr []string
		var doc, off uint64
		for i := 0; i < int(nd); i++ {
			dd, k, err := uv(f.b, q)
			if err != nil {
				return "", err
			}
			q += k
			do, k, err := uv(f.b, q)
			if err != nil {
				return "", err
			}
			q += k
			doc += dd
			off += do
			hdr = append(hdr, fmt.Sprintf("%d/%d", doc, off))
		}
		raw, err := unzstd(f.b[q:lim])
		if err != nil {
			return "", err
		}
		cs = e
		if len(hdr) == 0 {
			continue // a flushed chunk without documents (only its one-byte header)
		}
		out = append(out, fmt.Sprintf("%d:[%s]%s", ci, strings.Join(hdr, ";"), hexOrDash(raw)))
	}
	_ = nch
	if len(out) == 0 {
		return "none", nil
	}
	return strings.Join(out, ","), nil
}

func (f *lfile) fieldsDump() string {
	var out []string
	for i, n := range f.fieldNames {
		out = append(out, fmt.Sprintf("%s/%v/%d/%d", hx([]byte(n)), f.dictLocs[i] != 0, f.fieldDocs[i], f.fieldFreqs[i]))
	}
	return fmt.Sprintf("numDocs=%d mode=%d ver=%d fields=%s", f.numDocs, f.chunkMode, f.version, strings.Join(out, ","))
}
