module icecheck

go 1.16

require (
	github.com/RoaringBitmap/roaring v0.9.4
	github.com/blevesearch/vellum v1.0.7
	github.com/blugelabs/bluge_segment_api v0.2.0
	github.com/blugelabs/ice/v2 v2.0.0
	github.com/klauspost/compress v1.15.2
)

replace github.com/blugelabs/ice/v2 => /repo
