package main

import (
	"bufio"
	"bytes"
	"crypto/sha256"
	"encoding/json"
	"fmt"
	"os"
	"os/exec"
	"path/filepath"
	"runtime"
	"sort"
	"strconv"
	"strings"
	"sync"
	"time"
)

// Violation is one reported failure (before known-finding classification).
type Violation struct {
	Prop    string
	CaseID  string
	Kind    string // spec-mismatch | same-mismatch | mode-mismatch | fault | ...
	Detail  string
	Case    *Case
	Extra   string // free-form replay text for harness-only checks
	QueryIx int
}

type Report struct {
	Prop          string            `json:"property_id"`
	Tier          string            `json:"tier"`
	Seed          uint64            `json:"seed"`
	Evaluations   int               `json:"evaluations"`
	Distinct      int               `json:"distinct_nontrivial"`
	Rule          string            `json:"rule"`
	Samples       []string          `json:"samples"`
	Distribution  map[string]int    `json:"distribution"`
	Queries       int               `json:"queries_compared"`
	Violations    []string          `json:"violation_lines"`
	Known         []string          `json:"known_finding_lines"`
	WallS         float64           `json:"wall_s"`
	Notes         []string          `json:"notes"`
	ModelAgree    int               `json:"model_lines_agreeing"`
	ModelDisagree []string          `json:"model_vs_spec_disagreements"`
	Extra         map[string]string `json:"extra"`
}

type Engine struct {
	prop     string
	tier     string
	seed     uint64
	modelBin string
	outDir   string // /verif
	rep      *Report
	mu       sync.Mutex
	hashes   map[[32]byte]bool
}

func (e *Engine) count(key string, n int) {
	e.mu.Lock()
	e.rep.Distribution[key] += n
	e.mu.Unlock()
}

// runModel pipes case text through the Lean driver and returns answer lines per case id.
func (e *Engine) runModel(via string, cases []*Case) (map[string][]string, error) {
	shards := runtime.NumCPU()
	if shards > len(cases) {
		shards = len(cases)
	}
	if shards < 1 {
		shards = 1
	}
	res := make(map[string][]string)
	var mu sync.Mutex
	var wg sync.WaitGroup
	var firstErr error
	for s := 0; s < shards; s++ {
		wg.Add(1)
		go func(s int) {
			defer wg.Done()
			var in bytes.Buffer
			for i := s; i < len(cases); i += shards {
				cases[i].Write(&in)
			}
			cmd := exec.Command(e.modelBin, via)
			cmd.Stdin = &in
			var out bytes.Buffer
			cmd.Stdout = &out
			cmd.Stderr = os.Stderr
			if err := cmd.Run(); err != nil {
				mu.Lock()
				firstErr = fmt.Errorf("icemodel: %v", err)
				mu.Unlock()
				return
			}
			sc := bufio.NewScanner(&out)
			sc.Buffer(make([]byte, 1<<20), 1<<28)
			local := map[string][]string{}
			for sc.Scan() {
				line := sc.Text()
				t := strings.SplitN(line, " ", 3)
				if len(t) >= 2 && t[0] == "r" {
					local[t[1]] = append(local[t[1]], line)
				} else {
					local["?"] = append(local["?"], line)
				}
			}
			mu.Lock()
			for k, v := range local {
				res[k] = append(res[k], v...)
			}
			mu.Unlock()
		}(s)
	}
	wg.Wait()
	return res, firstErr
}

// numWorkers: VERIF_WORKERS=1 runs the cases one after the other (used by bin/check to tell a
// crash that needs cross-case concurrency from one a single case provokes).
func numWorkers() int {
	if v, err := strconv.Atoi(os.Getenv("VERIF_WORKERS")); err == nil && v > 0 {
		return v
	}
	return runtime.NumCPU()
}

func parallel(n int, f func(i int)) {
	workers := numWorkers()
	var wg sync.WaitGroup
	ch := make(chan int)
	for w := 0; w < workers; w++ {
		wg.Add(1)
		go func() {
			defer wg.Done()
			for i := range ch {
				f(i)
			}
		}()
	}
	for i := 0; i < n; i++ {
		ch <- i
	}
	close(ch)
	wg.Wait()
}

// firstDiff returns the index of the first differing line, or -1.
func firstDiff(a, b []string) int {
	n := len(a)
	if len(b) > n {
		n = len(b)
	}
	for i := 0; i < n; i++ {
		var x, y string
		if i < len(a) {
			x = a[i]
		}
		if i < len(b) {
			y = b[i]
		}
		if x != y {
			return i
		}
	}
	return -1
}

// specDiff runs the cases on the implementation (exec mode given by run) and on the Lean
// specification and returns the mismatching cases.
func (e *Engine) specDiff(cases []*Case, run func(c *Case) []string) []Violation {
	impl := make([][]string, len(cases))
	parallel(len(cases), func(i int) { impl[i] = run(cases[i]) })
	spec, err := e.runModel("spec", cases)
	if err != nil {
		return []Violation{{Prop: e.prop, Kind: "framework", Detail: err.Error()}}
	}
	if bad := spec["?"]; len(bad) > 0 {
		return []Violation{{Prop: e.prop, Kind: "framework", Detail: "icemodel rejected input: " + bad[0]}}
	}
	var out []Violation
	for i, c := range cases {
		e.rep.Queries += len(impl[i])
		if d := firstDiff(impl[i], spec[c.ID]); d >= 0 {
			var x, y string
			if d < len(impl[i]) {
				x = impl[i][d]
			}
			if d < len(spec[c.ID]) {
				y = spec[c.ID][d]
			}
			out = append(out, Violation{Prop: e.prop, CaseID: c.ID, Kind: "spec-mismatch", Case: c, QueryIx: d,
				Detail: fmt.Sprintf("query %d %v\n  impl: %s\n  spec: %s", d, queryAt(c, d), x, y)})
		}
	}
	return out
}

func queryAt(c *Case, i int) string {
	if i < len(c.Queries) {
		return strings.Join(c.Queries[i], " ")
	}
	return "?"
}

// mismatches reports whether the (single) case still disagrees with the specification.
func (e *Engine) mismatches(c *Case, run func(c *Case) []string) (bool, string) {
	impl := run(c)
	spec, err := e.runModel("spec", []*Case{c})
	if err != nil || len(spec["?"]) > 0 {
		return false, ""
	}
	d := firstDiff(impl, spec[c.ID])
	if d < 0 {
		return false, ""
	}
	var x, y string
	if d < len(impl) {
		x = impl[d]
	}
	if d < len(spec[c.ID]) {
		y = spec[c.ID][d]
	}
	return true, fmt.Sprintf("query %d %v\n  impl: %s\n  spec: %s", d, queryAt(c, d), x, y)
}

func (e *Engine) noteCase(c *Case, nontrivial bool) {
	e.mu.Lock()
	defer e.mu.Unlock()
	e.rep.Evaluations++
	if nontrivial {
		h := sha256.Sum256([]byte(c.bodyString()))
		if !e.hashes[h] {
			e.hashes[h] = true
			e.rep.Distinct++
		}
	}
	if len(e.rep.Samples) < 2 && nontrivial && len(c.String()) < 3000 {
		e.rep.Samples = append(e.rep.Samples, c.String())
	}
}

func (c *Case) bodyString() string {
	s := c.String()
	if i := strings.Index(s, "\n"); i >= 0 {
		return s[i:]
	}
	return s
}

func (e *Engine) writeReplay(v *Violation, idx int) string {
	dir := filepath.Join(e.outDir, "replays")
	_ = os.MkdirAll(dir, 0o755)
	p := filepath.Join(dir, fmt.Sprintf("%s-%d-%d.case", e.prop, e.seed, idx))
	var sb strings.Builder
	fmt.Fprintf(&sb, "# property %s  kind %s  case %s\n", v.Prop, v.Kind, v.CaseID)
	for _, l := range strings.Split(v.Detail, "\n") {
		fmt.Fprintf(&sb, "# %s\n", l)
	}
	if v.Case != nil {
		sb.WriteString(v.Case.String())
	}
	if v.Extra != "" {
		sb.WriteString(v.Extra)
	}
	_ = os.WriteFile(p, []byte(sb.String()), 0o644)
	return p
}

// ---- known findings ----

type KnownFinding struct {
	Status    string `json:"status"` // known | fixed
	Property  string `json:"property"`
	ID        string `json:"id"`
	Predicate string `json:"predicate"`
	What      string `json:"what"`
	Commit    string `json:"commit,omitempty"`
}

func loadKnown(dir string) []KnownFinding {
	b, err := os.ReadFile(filepath.Join(dir, "known_findings.json"))
	if err != nil {
		return nil
	}
	var f struct {
		Findings []KnownFinding `json:"findings"`
	}
	if json.Unmarshal(b, &f) != nil {
		return nil
	}
	return f.Findings
}

// finish classifies violations, prints the protocol lines, writes the harness report.
func (e *Engine) finish(vs []Violation, start time.Time) int {
	known := loadKnown(e.outDir)
	exit := 0
	seenKnown := map[string]bool{}
	sort.SliceStable(vs, func(i, j int) bool { return vs[i].CaseID < vs[j].CaseID })
	nrep := 0
	for i := range vs {
		v := &vs[i]
		matched := ""
		for _, k := range known {
			if k.Status == "known" && k.Property == v.Prop && matchPredicate(k.Predicate, v) {
				matched = k.ID
				if !seenKnown[k.ID] {
					seenKnown[k.ID] = true
					line := fmt.Sprintf("KNOWN-FINDING: property=%s %s (%s)", v.Prop, k.What, k.ID)
					fmt.Println(line)
					e.rep.Known = append(e.rep.Known, line)
				}
				break
			}
		}
		if matched != "" {
			continue
		}
		if nrep >= 5 {
			continue
		}
		nrep++
		p := e.writeReplay(v, i)
		suffix := ""
		if v.Kind == "obligation" || v.Kind == "framework" {
			suffix = " no-failing-input-found"
		}
		line := fmt.Sprintf("VIOLATION property=%s replay=%s%s", v.Prop, p, suffix)
		fmt.Println(line)
		fmt.Fprintf(os.Stderr, "%s\n%s\n", line, v.Detail)
		e.rep.Violations = append(e.rep.Violations, line)
		exit = 1
	}
	e.rep.WallS = time.Since(start).Seconds()
	b, _ := json.MarshalIndent(e.rep, "", " ")
	_ = os.MkdirAll(filepath.Join(e.outDir, ".work"), 0o755)
	_ = os.WriteFile(filepath.Join(e.outDir, ".work", e.prop+".harness.json"), b, 0o644)
	return exit
}
