package main

import (
	"math"

	segment "github.com/blugelabs/bluge_segment_api"
)

// Implementations of the analysis-result interfaces the builder consumes, driven
// directly by the case file (the repo's own stubs live in _test files).

type hDoc struct{ d Doc }

func (d *hDoc) Analyze() {}
func (d *hDoc) EachField(vf segment.VisitField) {
	for i := range d.d {
		vf(&hField{&d.d[i]})
	}
}

type hField struct{ f *FieldInst }

func (f *hField) Name() string         { return string(f.f.Name) }
func (f *hField) Length() int          { return f.f.Length }
func (f *hField) Value() []byte        { return f.f.Value }
func (f *hField) Index() bool          { return true }
func (f *hField) Store() bool          { return f.f.Store }
func (f *hField) IndexDocValues() bool { return f.f.DV }
func (f *hField) EachTerm(vt segment.VisitTerm) {
	for i := range f.f.Terms {
		vt(&hTerm{&f.f.Terms[i]})
	}
}

type hTerm struct{ t *TermOcc }

func (t *hTerm) Term() []byte   { return t.t.Term }
func (t *hTerm) Frequency() int { return t.t.Freq }
func (t *hTerm) EachLocation(vl segment.VisitLocation) {
	for i := range t.t.Locs {
		vl(&hLoc{&t.t.Locs[i]})
	}
}

type hLoc struct{ l *Loc }

func (l *hLoc) Field() string { return string(l.l.Field) }
func (l *hLoc) Start() int    { return l.l.Start }
func (l *hLoc) End() int      { return l.l.End }
func (l *hLoc) Pos() int      { return l.l.Pos }
func (l *hLoc) Size() int     { return 0 }

type hQTerm struct {
	f string
	t []byte
}

func (t *hQTerm) Field() string { return t.f }
func (t *hQTerm) Term() []byte  { return t.t }

func toDocs(ds []Doc) []segment.Document {
	out := make([]segment.Document, len(ds))
	for i := range ds {
		out[i] = &hDoc{ds[i]}
	}
	return out
}

// normFunc is the three-parameter family of strictly positive finite float32 norms
// (same formula as Ice.Spec.NormP.calc).
func normFunc(p [3]uint64) func(string, int) float32 {
	return func(name string, l int) float32 {
		var sum uint64
		for i := 0; i < len(name); i++ {
			sum += uint64(name[i])
		}
		bits := 1 + (p[0]*uint64(l)+p[1]*sum+p[2])%0x7f7fffff
		return math.Float32frombits(uint32(bits))
	}
}

// automata for Dictionary.Iterator: match-all and byte-prefix

type autAny struct{}

func (autAny) Start() int               { return 0 }
func (autAny) IsMatch(int) bool         { return true }
func (autAny) CanMatch(int) bool        { return true }
func (autAny) WillAlwaysMatch(int) bool { return true }
func (autAny) Accept(s int, b byte) int { return 0 }

// state i < len(p): matched i bytes of the prefix; len(p): prefix matched; -1: dead
type autPrefix struct{ p []byte }

func (a autPrefix) Start() int                 { return 0 }
func (a autPrefix) IsMatch(s int) bool         { return s == len(a.p) }
func (a autPrefix) CanMatch(s int) bool        { return s >= 0 }
func (a autPrefix) WillAlwaysMatch(s int) bool { return s == len(a.p) }
func (a autPrefix) Accept(s int, b byte) int {
	if s < 0 {
		return -1
	}
	if s == len(a.p) {
		return s
	}
	if a.p[s] == b {
		return s + 1
	}
	return -1
}
