package main

import (
	"bufio"
	"bytes"
	"errors"
	"fmt"
	"io"
	"math"
	"os"
	"os/exec"
	"path/filepath"
	"runtime"
	"strings"
	"sync"
	"sync/atomic"
	"time"
	"unsafe"

	"github.com/RoaringBitmap/roaring"
	segment "github.com/blugelabs/bluge_segment_api"
	ice "github.com/blugelabs/ice/v2"
)

func init() {
	props["C19"] = &propDef{extra: legC19, rule: "file-backed segments behind an injectable io.ReaderAt; for EVERY k, storage starts failing at its k-th read (during Load or anywhere in a random read script, cold and warm caches); every call must return (no hang > timeout, no panic) and calls before the fault must equal the healthy transcript; non-trivial = fault points that hit inside a read call after Load"}
	props["C12"] = &propDef{extra: legC12, rule: "for persist and merge workloads (random valid merge plans, bufio sizes 1/7/16/4096): a writer failing from byte k for EVERY k < total (must return an error), and the close channel closed once the writer has seen k bytes for EVERY k (must return ErrClosed or exactly the bytes of the undisturbed run); non-trivial = distinct (workload, k, kind) points"}
	props["C14"] = &propDef{extra: legC14, rule: "build histories (larger / smaller / other field sets / failing chunk mode) followed by a target batch: bytes must equal the bytes of the same batch built after the pool was emptied (2 GCs, VerifPoolProbe=false); each target built 4x (map order), and N concurrent builders; non-trivial = target built while VerifPoolProbe reported a used pooled object"}
	props["C15"] = &propDef{extra: legC15, rule: "for random merge plans: snapshot (persisted bytes + full read transcript per segment, clones of every deletion/exclusion bitmap) - then all reads, persists, merges and DocsMatchingTerms again with shared bitmap objects - snapshot again; must be identical; non-trivial = plan has >1 segment and a non-empty bitmap"}
	props["C09"] = &propDef{extra: legC09, rule: "K goroutines run the full read script of a case in their own random order on shared segments while a merge of these segments loops; plus visitor callbacks that re-enter every read API; every answer must equal the single-threaded answer (= Lean Spec); the same leg is run under the Go race detector by bin/check"}
}

// ---------- fault-injecting storage ----------

type faultReader struct {
	b      []byte
	reads  int64
	failAt int64 // the failAt-th read (0-based) and all later ones fail; <0 = never
}

var errStorage = errors.New("injected storage failure")

func (f *faultReader) ReadAt(p []byte, off int64) (int, error) {
	k := atomic.AddInt64(&f.reads, 1) - 1
	if f.failAt >= 0 && k >= f.failAt {
		return 0, errStorage
	}
	if off < 0 || off > int64(len(f.b)) {
		return 0, io.EOF
	}
	n := copy(p, f.b[off:])
	if n < len(p) {
		return n, io.EOF
	}
	return n, nil
}

// layout-identical mirror of segment.Data (bluge_segment_api v0.2.0), used only to put an
// arbitrary io.ReaderAt behind it
type dataMirror struct {
	mem []byte
	r   io.ReaderAt
	sz  int
}

func dataOver(r io.ReaderAt, sz int) *segment.Data {
	d := &dataMirror{r: r, sz: sz}
	return (*segment.Data)(unsafe.Pointer(d))
}

func legC19(e *Engine) []Violation {
	ncase := 6
	if e.tier == "thorough" {
		ncase = 60
	}
	var vs []Violation
	var mu sync.Mutex
	points := int64(0)
	inCall := int64(0)
	parallel(ncase, func(i int) {
		r := NewRng(e.seed, "C19", uint64(i))
		cb := newCaseBuilder(caseID("C19", e.seed, i), r)
		if len(cb.u.terms) > 4 {
			cb.u.terms = cb.u.terms[:4]
		}
		var sg int
		special := false
		if i%6 == 0 {
			// a term in a dozen documents with pairwise different frequencies, norms and locations
			// under a chunk size of 3 or 4: iterators that leave a chunk from its middle (Advance)
			// and are used again after the load of the next chunk failed
			body := []byte("body")
			cb.u.fields = [][]byte{[]byte("_id"), body}
			cb.u.terms = [][]byte{[]byte("x"), []byte("y")}
			n := r.Range(10, 14)
			docs := make([]Doc, n)
			for d := range docs {
				t := TermOcc{Term: []byte("x"), Freq: d + 2, Locs: []Loc{{Pos: d, Start: d + 1, End: d + 2}}}
				docs[d] = Doc{{Name: []byte("_id"), Length: 1, Terms: []TermOcc{{Term: []byte(fmt.Sprintf("d%d", d)), Freq: 1}}},
					{Name: body, Length: d + 2 + d%2, Terms: []TermOcc{t}}}
				if d%3 == 0 {
					docs[d][1].Terms = append(docs[d][1].Terms, TermOcc{Term: []byte("y"), Freq: 1})
				}
			}
			cs := uint32(r.Range(3, 4))
			sg = cb.addBuild(docs, cs, "hook")
			for _, fl := range []string{"111", "110"} {
				c1, c2 := int(cs)+r.Intn(int(cs)), 2*int(cs)+r.Intn(int(cs))
				cb.q("iter", itoa(sg), hx(body), "78", "~", fl, "n", "a"+itoa(c1), "n", "n", "n", "n")
				cb.q("iter", itoa(sg), hx(body), "78", "~", fl, "n", "n", "a"+itoa(c2), "n", "n", "a"+itoa(c2+int(cs)), "n")
			}
		} else if i%6 == 1 {
			// two doc-value chunks, the later one fuller; one reader visits them back and forth.  A load
			// that is cut short must not leave a cache that still answers for the chunk it held: a
			// load of the EARLIER chunk leaves its first entries in front of surviving entries of the
			// later chunk, in ascending order, so a binary search still finds them
			tag := []byte("tag")
			cb.u.fields = [][]byte{[]byte("_id"), tag}
			cb.u.terms = [][]byte{[]byte("x")}
			cb.u.dvOK = map[string]bool{"tag": true}
			n := 1024 + r.Range(40, 70)
			docs := make([]Doc, n)
			for d := range docs {
				val := []byte(fmt.Sprintf("v%d", d))
				if d%3 == 0 {
					val = append(val, []byte("-longer-value")...)
				}
				docs[d] = Doc{{Name: tag, Length: 1, DV: true, Terms: []TermOcc{{Term: val, Freq: 1}}}}
				if d < 1024 && d%64 != 0 && d > 12 {
					docs[d] = Doc{} // keep chunk 0's header short: fewer fault points
				}
			}
			sg = cb.addBuild(docs, 1024, "hook")
			cb.q("dv", itoa(sg), hx(tag), intList([]int{3, 1025, 4, 1026, 8, 0, n - 1, 64}))
			cb.q("dv", itoa(sg), hx(tag), intList([]int{n - 1, n - 2, 3, 1024, 1025, 1026, 1027, 1028, 1029, 1030, 1031, 1032, 1033, 1034, 1036, 1040, n - 1, 64}))
			special = true
		} else if i%6 == 3 {
			// three doc-value fields over two chunks; the last one has values only in chunk 0, so in
			// chunk 1 its load reads nothing: an earlier field's failed load must still be reported
			cat, dense, sparse := []byte("cat"), []byte("dense"), []byte("sparse")
			cb.u.fields = [][]byte{[]byte("_id"), cat, dense, sparse}
			cb.u.terms = [][]byte{[]byte("x")}
			cb.u.dvOK = map[string]bool{"cat": true, "dense": true, "sparse": true}
			n := 1024 + r.Range(6, 30)
			docs := make([]Doc, n)
			for d := range docs {
				if d >= 16 && d < 1024 {
					continue // keep chunk 0 short
				}
				doc := Doc{{Name: cat, Length: 1, DV: true, Terms: []TermOcc{{Term: []byte(fmt.Sprintf("c%d", d)), Freq: 1}}},
					{Name: dense, Length: 1, DV: true, Terms: []TermOcc{{Term: []byte(fmt.Sprintf("t%d", d)), Freq: 1}}}}
				if d < 10 {
					doc = append(doc, FieldInst{Name: sparse, Length: 1, DV: true, Terms: []TermOcc{{Term: []byte(fmt.Sprintf("n%d", d)), Freq: 1}}})
				}
				docs[d] = doc
			}
			sg = cb.addBuild(docs, 1024, "hook")
			cb.q("dv", itoa(sg), hx(cat)+","+hx(dense)+","+hx(sparse), intList([]int{3, 1026, 1027, 5, n - 1}))
			cb.q("dv", itoa(sg), hx(dense)+","+hx(sparse), intList([]int{n - 1, 2, 1025}))
			special = true
		} else if i%6 == 2 {
			// two stored blocks of same-shaped records; visits go back and forth between the blocks
			// (the visit context is pooled: what it held before must never be served)
			cb.u.fields = [][]byte{[]byte("_id"), []byte("v")}
			cb.u.terms = [][]byte{[]byte("x")}
			n := r.Range(131, 180)
			docs := make([]Doc, n)
			for d := range docs {
				id := []byte(fmt.Sprintf("%04d", d))
				docs[d] = Doc{{Name: []byte("_id"), Length: 1, Store: true, Value: id, Terms: []TermOcc{{Term: id, Freq: 1}}},
					{Name: []byte("v"), Store: true, Value: []byte(fmt.Sprintf("value-%04d", d))}}
			}
			sg = cb.addBuild(docs, 1024, "hook")
			for _, d := range []int{2, 130, 3, n - 1, 127, 128, 0} {
				cb.q("stored", itoa(sg), itoa(d), "-1")
			}
			special = true
		} else if r.Chance(1, 2) {
			sg, _ = cb.genMergePlan("tiny", false)
		} else {
			n := r.Range(1, 6)
			if i%5 == 4 {
				n = r.Range(130, 200)
			}
			docs := cb.u.genBatch(r, n, docOpts{maxInst: 3, maxTerms: 3}, "d")
			m, api := tinyMode(r)
			sg = cb.addBuild(docs, m, api)
		}
		// a read script over the one segment under test
		cb.q("fields", itoa(sg))
		for _, f := range cb.queryFields() {
			if special {
				break
			}
			cb.q("dict", itoa(sg), hx(f), "~", "~", "any")
			for _, t := range cb.queryTerms()[:min(3, len(cb.queryTerms()))] {
				cb.q("iter", itoa(sg), hx(f), hx(t), "~", "111", "w")
				// Next / Advance scripts: after a failed call the same iterator is used again
				if cb.n[sg] > 1 && r.Chance(1, 2) {
					ops := []string{"iter", itoa(sg), hx(f), hx(t), "~", []string{"111", "110", "100"}[r.Intn(3)]}
					ops = append(ops, cb.genOps(cb.n[sg])...)
					ops = append(ops, "n", "n")
					cb.q(ops...)
				}
			}
		}
		for _, d := range cb.sampleDocs(cb.n[sg], 4) {
			cb.q("stored", itoa(sg), itoa(d), "-1")
		}
		if cb.n[sg] > 0 && !special {
			cb.q("dv", itoa(sg), hxList(cb.queryFields()), intList(cb.sampleDocs(cb.n[sg], 4)))
			cb.q("match", itoa(sg), hx(cb.u.fields[0])+":"+hx(cb.u.terms[0]), "6e6f7065:61")
		}
		// warm-cache variant: the script twice
		qs := cb.c.Queries
		if r.Chance(1, 2) {
			qs = append(append([]Query{}, qs...), qs...)
		}
		c := cb.c
		w := BuildWorld(c)
		defer w.Close()
		if w.segs[sg].err != "" {
			e.count("skipped:segment-construction-failed", 1) // subject of C01-C04, not of C19
			return
		}
		img, _, err := persist(w.segs[sg].seg)
		if err != nil {
			return
		}
		// healthy run: count reads
		runWith := func(failAt int64) (answers []string, loadReads, total int64, loadErr bool) {
			fr := &faultReader{b: img, failAt: failAt}
			var s segment.Segment
			res := guard(20*time.Second, func() string {
				var err error
				s, err = ice.Load(dataOver(fr, len(img)))
				if err != nil {
					return "err"
				}
				return "ok"
			})
			loadReads = atomic.LoadInt64(&fr.reads)
			if res != "ok" {
				return []string{"load:" + res}, loadReads, loadReads, true
			}
			w2 := &World{c: c, segs: make([]*RSeg, len(w.segs))}
			for j := range w2.segs {
				w2.segs[j] = &RSeg{err: "unused"}
			}
			w2.segs[sg] = &RSeg{seg: s, obs: s, docnums: w.segs[sg].docnums, isMerge: w.segs[sg].isMerge, wroteOK: true}
			for _, q := range qs {
				a := guard(10*time.Second, func() string { return w2.exec(q, nil) })
				answers = append(answers, a)
				if a == "hang" {
					break // every later call would wait for the same lock
				}
			}
			return answers, loadReads, atomic.LoadInt64(&fr.reads), false
		}
		healthy, loadReads, total, _ := runWith(-1)
		for k := int64(0); k <= total; k++ {
			atomic.AddInt64(&points, 1)
			ans, _, _, loadErr := runWith(k)
			for _, a := range ans {
				if a == "hang" || strings.HasSuffix(a, " hang") {
					// believe a hang only if it persists with six times the patience
					atomic.StoreInt64(&slowFactor, 6)
					ans, _, _, loadErr = runWith(k)
					atomic.StoreInt64(&slowFactor, 1)
					break
				}
			}
			if k >= loadReads {
				atomic.AddInt64(&inCall, 1)
			}
			bad := ""
			if loadErr {
				if ans[0] != "load:err" {
					bad = fmt.Sprintf("Load with storage failing from read %d: %s", k, ans[0])
				}
			} else {
				for j, a := range ans {
					if a == "hang" || a == "panic" || strings.HasSuffix(a, " panic") || strings.HasSuffix(a, " hang") {
						bad = fmt.Sprintf("storage failing from read %d (Load used %d): call %d `%s` -> %s", k, loadReads, j, strings.Join(qs[j], " "), a)
						break
					}
					if j < len(healthy) && !faultConsistent(healthy[j], a) {
						bad = fmt.Sprintf("storage failing from read %d (Load used %d): call %d `%s` answered without an error but differently from the healthy run\n  healthy: %s\n  faulty:  %s", k, loadReads, j, strings.Join(qs[j], " "), healthy[j], a)
						break
					}
				}
				if bad == "" && k == total {
					for j := range ans {
						if ans[j] != healthy[j] {
							bad = fmt.Sprintf("healthy storage: answer %d differs between runs", j)
						}
					}
				}
			}
			if bad != "" {
				mu.Lock()
				cc := cloneCase(c)
				cc.Queries = qs
				vs = append(vs, Violation{Prop: "C19", CaseID: c.ID, Kind: "fault", Case: cc, Detail: bad,
					Extra: fmt.Sprintf("# fault: segment %d file-backed, storage fails from read %d on\n", sg, k)})
				mu.Unlock()
				return
			}
		}
		e.mu.Lock()
		if len(e.rep.Samples) < 3 {
			e.rep.Samples = append(e.rep.Samples, fmt.Sprintf("case %s: segment %d file-backed (%d bytes); Load issues %d storage reads, the script of %d calls %d more; for every k in 0..%d storage fails from its k-th read on: every call returned, none panicked or hung", c.ID, sg, len(img), loadReads, len(qs), total-loadReads, total))
		}
		e.mu.Unlock()
		e.noteCase(c, true)
	})
	e.rep.Evaluations = int(points)
	e.rep.Distinct = int(inCall)
	e.count("fault-points", int(points))
	e.count("fault-points-inside-read-calls", int(inCall))
	return vs
}

// faultConsistent: under storage faults an answer must be the healthy answer, an error, or an
// emptier result - never different data without an error.  Iterator scripts are compared token by
// token (after an error, later calls on the same iterator may say err, nil, or the right posting).
func faultConsistent(healthy, got string) bool {
	if got == healthy || strings.HasPrefix(got, "err") || strings.HasPrefix(got, "parse-err") || strings.HasPrefix(got, "segerr") {
		return true
	}
	if strings.Contains(healthy, " | ") || strings.Contains(got, " | ") {
		// per-document parts (doc values): each part is the healthy part, an error, or empty
		hp, gp := strings.Split(healthy, " | "), strings.Split(got, " | ")
		if len(hp) != len(gp) {
			return false
		}
		for i := range gp {
			g := strings.TrimSpace(gp[i])
			if g != "" && g != "err" && gp[i] != hp[i] {
				return false
			}
		}
		return true
	}
	ht, gt := strings.Fields(healthy), strings.Fields(got)
	hasErr := false
	for _, t := range gt {
		if t == "err" {
			hasErr = true
		}
	}
	if hasErr {
		// before the first error: position by position; after it: an error, nil, or a posting
		// the healthy run delivered as well (the failed call may or may not have consumed one)
		known := map[string]bool{}
		for _, t := range ht {
			known[t] = true
		}
		seenErr := false
		for i, t := range gt {
			if t == "err" {
				seenErr = true
				continue
			}
			if t == "nil" || strings.HasPrefix(t, "cnt=") || strings.HasPrefix(t, "icnt=") {
				continue
			}
			if seenErr {
				if !known[t] {
					return false
				}
				continue
			}
			if i >= len(ht) || ht[i] != t {
				return false
			}
		}
		return true
	}
	// no error reported: every part must be empty or the healthy part
	hp, gp := strings.Split(healthy, " | "), strings.Split(got, " | ")
	if len(hp) != len(gp) {
		return got == ""
	}
	for i := range gp {
		if strings.TrimSpace(gp[i]) != "" && gp[i] != hp[i] {
			return false
		}
	}
	return true
}

// ---------- C12: failing writer, cancelled merge ----------

type limitWriter struct {
	buf     bytes.Buffer
	limit   int // accept this many bytes, then fail; <0 = never
	closeAt int // close ch once this many bytes were seen; <0 = never
	ch      chan struct{}
	closed  bool
	calls   int
}

var errSink = errors.New("injected writer failure")

func (w *limitWriter) Write(p []byte) (int, error) {
	w.calls++
	if w.closeAt >= 0 && !w.closed && w.buf.Len() >= w.closeAt {
		close(w.ch)
		w.closed = true
	}
	if w.limit >= 0 {
		room := w.limit - w.buf.Len()
		if room < len(p) {
			if room < 0 {
				room = 0
			}
			w.buf.Write(p[:room])
			return room, errSink
		}
	}
	w.buf.Write(p)
	if w.closeAt >= 0 && !w.closed && w.buf.Len() >= w.closeAt {
		close(w.ch)
		w.closed = true
	}
	return len(p), nil
}

func legC12(e *Engine) []Violation {
	if os.Getenv("VERIF_ONLY_BUFIO") != "" {
		return bufioCorrespondence(e)
	}
	ncase := 8
	if e.tier == "thorough" {
		ncase = 80
	}
	var vs []Violation
	var mu sync.Mutex
	var points, distinct int64
	add := func(v Violation) {
		mu.Lock()
		vs = append(vs, v)
		mu.Unlock()
	}
	parallel(ncase, func(i int) {
		r := NewRng(e.seed, "C12", uint64(i))
		cb := newCaseBuilder(caseID("C12", e.seed, i), r)
		final, _ := cb.genMergePlan("tiny", false)
		c := cb.c
		w := BuildWorld(c)
		defer w.Close()
		for _, s := range w.segs {
			if s.err != "" {
				e.count("skipped:segment-construction-failed", 1) // subject of C01-C04, not of C12
				return
			}
		}
		sd := c.Segs[final]
		segs := make([]segment.Segment, len(sd.Ins))
		mkDrops := func() []*roaring.Bitmap {
			drops := make([]*roaring.Bitmap, len(sd.Ins))
			for j, in := range sd.Ins {
				if !in.Nil {
					drops[j] = bitmapOf(in.Drops)
				}
			}
			return drops
		}
		for j, in := range sd.Ins {
			segs[j] = w.segs[in.Seg].seg
		}
		type workload struct {
			name string
			run  func(lw *limitWriter) (int64, error)
		}
		var wls []workload
		// small sizes matter: the footer ends in 8,8,8,8,4,4,4-byte writes, and a buffer that is
		// filled exactly by the last of them is flushed only by the explicit Flush
		for _, bs := range []int{1, 4, r.Range(2, 6), r.Range(7, 13), 16, 4096} {
			bs := bs
			wls = append(wls, workload{fmt.Sprintf("Merger.WriteTo(buf=%d)", bs), func(lw *limitWriter) (int64, error) {
				return ice.Merge(segs, mkDrops(), bs).WriteTo(lw, lw.ch)
			}})
		}
		for si := range w.segs {
			si := si
			if si > 2 {
				break
			}
			wls = append(wls, workload{fmt.Sprintf("Segment.WriteTo(seg %d)", si), func(lw *limitWriter) (int64, error) {
				return w.segs[si].seg.WriteTo(lw, lw.ch)
			}})
		}
		for _, wl := range wls {
			ref := &limitWriter{limit: -1, closeAt: -1, ch: make(chan struct{})}
			n, err := wl.run(ref)
			if err != nil {
				e.count("skipped:workload-fails-on-healthy-writer", 1) // subject of C02/C04
				return
			}
			if n != int64(ref.buf.Len()) {
				add(Violation{Prop: "C12", CaseID: c.ID, Kind: "fault", Case: c,
					Detail: fmt.Sprintf("%s on a healthy writer: n=%d len=%d", wl.name, n, ref.buf.Len())})
				return
			}
			total := ref.buf.Len()
			// every offset for files up to 12000 bytes; for larger ones (a generated case may hold a
			// 200 KB stored value) the first and last `per` offsets and `per` random ones in between
			offsets := func(upTo int) []int {
				var ks []int
				if upTo <= 12000 {
					for k := 0; k < upTo; k++ {
						ks = append(ks, k)
					}
					return ks
				}
				// the cost of one point grows with the file: a byte budget per sweep keeps a case with a
				// 200 KB stored value from taking minutes
				budget := 40000000
				if e.tier == "thorough" {
					budget = 100000000
				}
				per := budget / upTo / 3
				if per > 3000 {
					per = 3000
				}
				if per < 40 {
					per = 40
				}
				for k := 0; k < per; k++ {
					ks = append(ks, k)
				}
				for k := 0; k < per; k++ {
					ks = append(ks, per+r.Intn(upTo-2*per))
				}
				for k := upTo - per; k < upTo; k++ {
					ks = append(ks, k)
				}
				return ks
			}
			for _, k := range offsets(total) {
				atomic.AddInt64(&points, 1)
				lw := &limitWriter{limit: k, closeAt: -1, ch: make(chan struct{})}
				var n int64
				var err error
				res := guard(20*time.Second, func() string { n, err = wl.run(lw); return "" })
				if res == "hang" {
					atomic.StoreInt64(&slowFactor, 6)
					lw = &limitWriter{limit: k, closeAt: -1, ch: make(chan struct{})}
					res = guard(20*time.Second, func() string { n, err = wl.run(lw); return "" })
					atomic.StoreInt64(&slowFactor, 1)
				}
				if res != "" || err == nil {
					add(Violation{Prop: "C12", CaseID: c.ID, Kind: "fault", Case: c,
						Detail: fmt.Sprintf("%s: writer fails after %d of %d bytes -> %s n=%d err=%v (silent success)", wl.name, k, total, res, n, err),
						Extra:  fmt.Sprintf("# fault: %s writer accepts %d bytes then fails\n", wl.name, k)})
					return
				}
			}
			if strings.HasPrefix(wl.name, "Segment") && total > 60 {
				// the same on segment objects whose FIRST persist ever is the failing one (fresh
				// loaded twins): whatever a persist keeps in the segment is first filled on the error path
				for _, k := range []int{1, total / 2, total - 50} {
					twin, err := ice.Load(segment.NewDataBytes(append([]byte(nil), ref.buf.Bytes()...)))
					if err != nil {
						break
					}
					lw := &limitWriter{limit: k, closeAt: -1, ch: make(chan struct{})}
					_, ferr := twin.WriteTo(lw, lw.ch)
					var again bytes.Buffer
					n2, err2 := twin.WriteTo(&again, nil)
					if ferr == nil || err2 != nil || n2 != int64(again.Len()) || !bytes.Equal(again.Bytes(), ref.buf.Bytes()) {
						add(Violation{Prop: "C12", CaseID: c.ID, Kind: "fault", Case: c,
							Detail: fmt.Sprintf("%s on a freshly loaded copy: first WriteTo into a writer failing after %d of %d bytes (err=%v), then WriteTo into a healthy writer: n=%d err=%v, %d bytes that %s the reference file - success reported for a file that is not the segment's file", wl.name, k, total, ferr, n2, err2, again.Len(), map[bool]string{true: "equal", false: "DIFFER from"}[bytes.Equal(again.Bytes(), ref.buf.Bytes())])})
						return
					}
				}
			}
			if strings.HasPrefix(wl.name, "Segment") {
				// after all those failed attempts on the same segment object: a healthy writer gets the
				// reference file, nothing truncated, partial or differently summed
				again := &limitWriter{limit: -1, closeAt: -1, ch: make(chan struct{})}
				n2, err2 := wl.run(again)
				if err2 != nil || n2 != int64(again.buf.Len()) || !bytes.Equal(again.buf.Bytes(), ref.buf.Bytes()) {
					add(Violation{Prop: "C12", CaseID: c.ID, Kind: "fault", Case: c,
						Detail: fmt.Sprintf("%s: after attempts into failing writers, an attempt into a healthy writer reported n=%d err=%v for %d bytes that %s the reference file", wl.name, n2, err2, again.buf.Len(), map[bool]string{true: "equal", false: "DIFFER from"}[bytes.Equal(again.buf.Bytes(), ref.buf.Bytes())])})
					return
				}
			}
			if strings.HasPrefix(wl.name, "Merger") && total > 60 {
				// one Merger object, one destination object: the first attempt is cancelled (or the
				// destination fails) part way, the caller truncates the destination and tries again.
				// Success on the second attempt must be the complete reference file.
				var bs int
				fmt.Sscanf(wl.name, "Merger.WriteTo(buf=%d)", &bs)
				for _, mode := range []string{"cancel", "fail"} {
					for _, k := range []int{1, 7 + r.Intn(40), total / 2, total - 30} {
						m := ice.Merge(segs, mkDrops(), bs)
						dst := &limitWriter{limit: -1, closeAt: -1, ch: make(chan struct{})}
						if mode == "cancel" {
							dst.closeAt = k
						} else {
							dst.limit = k
						}
						_, err1 := m.WriteTo(dst, dst.ch)
						if err1 == nil {
							continue // the cancel came too late to matter
						}
						dst.buf.Reset()
						dst.limit, dst.closeAt = -1, -1
						n2, err2 := m.WriteTo(dst, nil)
						if err2 == nil && (n2 != int64(total) || !bytes.Equal(dst.buf.Bytes(), ref.buf.Bytes())) {
							add(Violation{Prop: "C12", CaseID: c.ID, Kind: "fault", Case: c,
								Detail: fmt.Sprintf("%s: first attempt (%s after %d of %d bytes) ended with %v; the destination was truncated and the SAME Merger written into the SAME destination again: n=%d err=nil for %d bytes that differ from the reference file (success reported for a wrong file)", wl.name, mode, k, total, err1, n2, dst.buf.Len())})
							return
						}
					}
				}
			}
			if strings.HasPrefix(wl.name, "Merger") {
				for _, k := range append(offsets(total), total) {
					atomic.AddInt64(&points, 1)
					lw := &limitWriter{limit: -1, closeAt: k, ch: make(chan struct{})}
					var n int64
					var err error
					res := guard(20*time.Second, func() string { n, err = wl.run(lw); return "" })
					bad := ""
					switch {
					case res != "":
						bad = res
					case err == nil:
						if !bytes.Equal(lw.buf.Bytes(), ref.buf.Bytes()) || n != int64(total) {
							bad = fmt.Sprintf("success reported for %d of %d bytes (n=%d)", lw.buf.Len(), total, n)
						}
					case err != segment.ErrClosed:
						bad = fmt.Sprintf("error is not ErrClosed: %v", err)
					}
					if bad != "" {
						add(Violation{Prop: "C12", CaseID: c.ID, Kind: "fault", Case: c,
							Detail: fmt.Sprintf("%s: close channel closed after %d of %d bytes -> %s", wl.name, k, total, bad),
							Extra:  fmt.Sprintf("# fault: %s closeCh closed once %d bytes were written\n", wl.name, k)})
						return
					}
				}
			}
			atomic.AddInt64(&distinct, int64(total))
			e.mu.Lock()
			if len(e.rep.Samples) < 3 {
				e.rep.Samples = append(e.rep.Samples, fmt.Sprintf("case %s, workload %s: %d bytes on a healthy writer; writer failing after k bytes for every k in 0..%d (files above 12000 bytes: first, last and random offsets within a byte budget) -> error each time; close channel closed after k bytes for every such k up to %d -> ErrClosed or the identical complete file", c.ID, wl.name, total, total-1, total))
			}
			e.mu.Unlock()
		}
		e.noteCase(c, true)
	})
	e.rep.Evaluations = int(points)
	e.rep.Distinct = int(distinct)
	e.count("fault-points", int(points))
	vs = append(vs, bufioCorrespondence(e)...)
	return vs
}

// bufioCorrespondence: the Lean model of bufio.Writer + Merger.WriteTo's plumbing against Go's
// real bufio on random write scripts, buffer sizes and failure points (a third-party law of
// DESIGN.md 2.3, sampled).
func bufioCorrespondence(e *Engine) []Violation {
	n := 400
	if e.tier == "thorough" {
		n = 6000
	}
	c := &Case{ID: caseID("C12bufio", e.seed, 0)}
	var want []string
	r := NewRng(e.seed, "C12-bufio", 0)
	for i := 0; i < n; i++ {
		size := []int{1, 2, 3, 7, 16, 64, 4096}[r.Intn(7)]
		nw := r.Range(0, 8)
		var lens []int
		total := 0
		for j := 0; j < nw; j++ {
			l := r.Intn(12)
			if r.Chance(1, 6) {
				l = r.Intn(3*size + 2)
			}
			if l > 9000 {
				l = 9000
			}
			lens = append(lens, l)
			total += l
		}
		k := r.Intn(total + 3)
		if r.Chance(1, 4) {
			k = total + 10
		}
		sink := &limitWriter{limit: k, closeAt: -1, ch: make(chan struct{})}
		bw := bufio.NewWriterSize(sink, size)
		failed := false
		count := 0
		for _, l := range lens {
			m, err := bw.Write(make([]byte, l))
			count += m
			if err != nil {
				failed = true
				break
			}
		}
		if !failed {
			if err := bw.Flush(); err != nil {
				failed = true
			}
		}
		res := fmt.Sprintf("ok n=%d", count)
		if failed {
			res = "err"
		}
		c.Queries = append(c.Queries, Query{"bufio", itoa(size), itoa(k), intList(lens)})
		want = append(want, fmt.Sprintf("r %s %d %s calls=%d got=%d", c.ID, i, res, sink.calls, sink.buf.Len()))
	}
	got, err := e.runModel("spec", []*Case{c})
	if err != nil {
		return []Violation{{Prop: e.prop, Kind: "framework", Detail: err.Error()}}
	}
	e.count("bufio-model-scripts", n)
	if d := firstDiff(want, got[c.ID]); d >= 0 {
		var y string
		if d < len(got[c.ID]) {
			y = got[c.ID][d]
		}
		cc := &Case{ID: c.ID, Queries: []Query{c.Queries[d]}}
		return []Violation{{Prop: e.prop, CaseID: c.ID, Kind: "obligation", Case: cc,
			Detail: fmt.Sprintf("the Lean model of bufio.Writer / Merger.WriteTo disagrees with Go's bufio on `%s`\n  go:    %s\n  model: %s", strings.Join(c.Queries[d], " "), want[d], y)}}
	}
	e.rep.ModelAgree += n
	return nil
}

// ---------- C14: builder determinism ----------

func buildBytes(docs []Doc, norm [3]uint64, mode uint32) ([]byte, error) {
	s, _, err := ice.VerifNew(toDocs(docs), normFunc(norm), mode)
	if err != nil {
		return nil, err
	}
	b, _, err := persist(s)
	return b, err
}

func emptyPool() bool {
	for i := 0; i < 4; i++ {
		runtime.GC()
		runtime.GC()
		if !ice.VerifPoolProbe() {
			// the probe put a fresh object back; clear again so the next build starts cold
			runtime.GC()
			runtime.GC()
			return true
		}
	}
	return false
}

func legC14(e *Engine) []Violation {
	ncase := 40
	if e.tier == "thorough" {
		ncase = 600
	}
	var vs []Violation
	reused := 0
	crossRuns := 0
	defer func() { e.count("targets-built-in-fresh-processes-with-and-without-history", crossRuns) }()
	// sequential on purpose: the pool is global state
	for i := 0; i < ncase; i++ {
		r := NewRng(e.seed, "C14", uint64(i))
		cb := newCaseBuilder(caseID("C14", e.seed, i), r)
		class := "tiny"
		if i%20 == 19 {
			class = "block"
		}
		target, mode, _ := cb.genLeaf(class, "t")
		if i%10 == 5 {
			// more than a thousand postings lists with varied terms: structures of the pooled builder
			// that are SIZED by the first batch they see (not only filled by it) show here
			target = manyTerms(r, 260)
		}
		emptyPool()
		cold, err := buildBytes(target, cb.c.Norm, mode)
		if err != nil {
			vs = append(vs, Violation{Prop: "C14", CaseID: cb.c.ID, Kind: "fault", Detail: "cold build failed: " + err.Error()})
			continue
		}
		// process-wide state outside the pooled builder (e.g. a codec set up by the first build of
		// the process) has ONE history inside this process, so two builds here can never differ by
		// it.  Every few targets: the same batch is built in two FRESH processes of this very binary,
		// once as the first build and once after a tiny and a large batch; the hashes must agree.
		if i%8 == 0 {
			if msg := crossProcess(cb, target, mode); msg != "" {
				sg := cb.addBuild(target, mode, "hook")
				_ = sg
				vs = append(vs, Violation{Prop: "C14", CaseID: cb.c.ID, Kind: "fault", Case: cb.c, Detail: msg})
				continue
			}
			crossRuns++
		}
		emptyPool()
		// history
		hist := r.Range(1, 5)
		var histDesc []string
		for h := 0; h < hist; h++ {
			cb2 := newCaseBuilder("h", r)
			switch r.Intn(4) {
			case 0: // same universe, so field ids collide with different doc-values flags
				cb2.u = cb.u
			}
			cl := "tiny"
			if r.Chance(1, 6) {
				cl = "block"
			}
			if i%10 == 7 && h == 0 {
				// more than 1024 documents in the target's own universe: per-chunk tables of the pooled
				// builder that are sized by the largest batch seen so far show on the smaller target
				cl = "chunk"
				cb2.u = cb.u
			}
			docs, m, _ := cb2.genLeaf(cl, "h")
			if r.Chance(1, 5) {
				m = 5000 // invalid chunk mode: the build fails and the object is not returned
			}
			_, err := buildBytes(docs, cb2.c.Norm, m)
			histDesc = append(histDesc, fmt.Sprintf("%s/%d docs/mode %d/err=%v", cl, len(docs), m, err != nil))
		}
		for rep := 0; rep < 4; rep++ {
			if ice.VerifPoolProbe() {
				reused++
			}
			warm, err := buildBytes(target, cb.c.Norm, mode)
			if err != nil || !bytes.Equal(warm, cold) {
				sg := cb.addBuild(target, mode, "hook")
				_ = sg
				vs = append(vs, Violation{Prop: "C14", CaseID: cb.c.ID, Kind: "fault", Case: cb.c,
					Detail: fmt.Sprintf("bytes of the target batch differ from the cold build after history [%s] (repeat %d, err=%v, %d vs %d bytes)",
						strings.Join(histDesc, "; "), rep, err, len(warm), len(cold)),
					Extra: "# history: " + strings.Join(histDesc, "; ") + "\n"})
				break
			}
		}
		if len(e.rep.Samples) < 3 {
			e.rep.Samples = append(e.rep.Samples, fmt.Sprintf("target batch of %d documents (mode %d) built cold (%d bytes), then after history [%s] four more times: identical bytes each time", len(target), mode, len(cold), strings.Join(histDesc, "; ")))
		}
		e.noteCase(cb.c, true)
	}
	// concurrent builders
	nconc := 6
	if e.tier == "thorough" {
		nconc = 40
	}
	for round := 0; round < nconc; round++ {
		type job struct {
			docs []Doc
			norm [3]uint64
			mode uint32
			cold []byte
		}
		var jobs []job
		for j := 0; j < 8; j++ {
			r := NewRng(e.seed, "C14-conc", uint64(round*100+j))
			cb := newCaseBuilder("c", r)
			docs, m, _ := cb.genLeaf("tiny", "t")
			emptyPool()
			cold, err := buildBytes(docs, cb.c.Norm, m)
			if err != nil {
				continue
			}
			jobs = append(jobs, job{docs, cb.c.Norm, m, cold})
		}
		var wg sync.WaitGroup
		var bad int64
		for g := 0; g < 16; g++ {
			wg.Add(1)
			go func(g int) {
				defer wg.Done()
				for it := 0; it < 20; it++ {
					j := jobs[(g+it)%len(jobs)]
					b, err := buildBytes(j.docs, j.norm, j.mode)
					if err != nil || !bytes.Equal(b, j.cold) {
						atomic.AddInt64(&bad, 1)
					}
				}
			}(g)
		}
		wg.Wait()
		e.rep.Evaluations += 16 * 20
		if bad > 0 {
			vs = append(vs, Violation{Prop: "C14", CaseID: fmt.Sprintf("C14-conc-%d", round), Kind: "fault",
				Detail: fmt.Sprintf("%d of 320 concurrent builds produced bytes different from their cold build", bad)})
		}
	}
	e.count("target-builds-with-used-pool-object", reused)
	e.rep.Distinct = reused
	return vs
}

// ---------- C15: immutability ----------

func legC15(e *Engine) []Violation {
	ncase := 60
	if e.tier == "thorough" {
		ncase = 1000
	}
	var vs []Violation
	var mu sync.Mutex
	parallel(ncase, func(i int) {
		r := NewRng(e.seed, "C15", uint64(i))
		cb := newCaseBuilder(caseID("C15", e.seed, i), r)
		var final int
		if i%20 == 7 {
			// segments with different numbers of 1024-document doc-value chunks, larger first
			cb.u.dvOK[string(cb.u.fields[0])] = true
			cb.u.dvAll = true
			if len(cb.u.terms) > 4 {
				cb.u.terms = cb.u.terms[:4]
			}
			d1 := cb.u.genBatch(r, r.Range(1025, 2300), docOpts{maxInst: 2, maxTerms: 2}, "a")
			d2 := cb.u.genBatch(r, r.Range(1, 900), docOpts{maxInst: 2, maxTerms: 2}, "b")
			s1 := cb.addBuild(d1, 1025, "pub")
			s2 := cb.addBuild(d2, 1025, "pub")
			final = s2
			for _, sg := range []int{s1, s2} {
				cb.q("dv", itoa(sg), hxList(cb.u.fields), intList(cb.sampleDocs(cb.n[sg], 30)))
				cb.q("fields", itoa(sg))
				cb.q("stored", itoa(sg), "0", "-1")
			}
		} else {
			final, _ = cb.genMergePlan("tiny", false)
			for s := 0; s <= final; s++ {
				cb.observeAll(s)
			}
			cb.iterQueries(r.Intn(final+1), 10)
		}
		c := cb.c
		w := BuildWorld(c)
		defer w.Close()
		snap := func() ([][]byte, []string) {
			var imgs [][]byte
			for _, s := range w.segs {
				if s.err != "" {
					imgs = append(imgs, []byte(s.err))
					continue
				}
				b, _, _ := persist(s.seg)
				imgs = append(imgs, b)
			}
			var tr []string
			for _, q := range c.Queries {
				tr = append(tr, w.Exec(q, nil))
			}
			return imgs, tr
		}
		img1, tr1 := snap()
		// operations: merges over every pair of segments with shared bitmaps, DocsMatchingTerms,
		// postings lists with shared exclusion bitmaps
		var shared []*roaring.Bitmap
		var clones []*roaring.Bitmap
		var ser [][]byte
		mk := func(n int) *roaring.Bitmap {
			in := genDrops(r, n)
			var bm *roaring.Bitmap
			if !in.Nil {
				bm = bitmapOf(in.Drops)
				if r.Chance(1, 2) {
					bm.RunOptimize()
				}
				shared = append(shared, bm)
				clones = append(clones, bm.Clone())
				b, _ := bm.ToBytes()
				ser = append(ser, append([]byte{}, b...))
			}
			return bm
		}
		ok := func(s *RSeg) bool { return s.err == "" }
		heldBad := ""
		for a := 0; a < len(w.segs); a++ {
			for b := a; b < len(w.segs) && b < a+2; b++ {
				if !ok(w.segs[a]) || !ok(w.segs[b]) {
					continue
				}
				da, db := mk(cb.n[a]), mk(cb.n[b])
				var buf bytes.Buffer
				guard(opTimeout, func() string {
					_, _, _ = ice.VerifMerge([]segment.Segment{w.segs[a].seg, w.segs[b].seg}, []*roaring.Bitmap{da, db}, &buf, 1025, nil)
					_, _ = ice.Merge([]segment.Segment{w.segs[a].seg, w.segs[b].seg}, []*roaring.Bitmap{da, db}, 16).WriteTo(&buf, nil)
					return ""
				})
				// postings lists with the same bitmaps as exclusion
				guard(opTimeout, func() string {
					for _, f := range cb.u.fields {
						d, err := w.segs[a].seg.Dictionary(string(f))
						if err != nil {
							continue
						}
						for _, t := range cb.u.terms {
							pl, err := d.PostingsList(t, da, nil)
							if err != nil {
								continue
							}
							_ = pl.Count()
							it, err := pl.Iterator(true, true, true, nil)
							if err != nil {
								continue
							}
							for p, _ := it.Next(); p != nil; p, _ = it.Next() {
							}
						}
						// a list and its iterator stay with the caller while the iterator object is
						// handed on as prealloc to the next term's list (with an exclusion bitmap):
						// the held list must go on reporting its own documents
						var heldPL segment.PostingsList
						var heldIt segment.PostingsIterator
						var heldDocs []uint64
						var heldTerm []byte
						drain := func(it segment.PostingsIterator) []uint64 {
							var ds []uint64
							for p, err := it.Next(); p != nil && err == nil; p, err = it.Next() {
								ds = append(ds, p.Number())
							}
							return ds
						}
						for _, t := range cb.u.terms {
							plA, err := d.PostingsList(t, nil, nil)
							if err != nil {
								continue
							}
							itA, err := plA.Iterator(true, true, true, nil)
							if err != nil {
								continue
							}
							docsA := drain(itA)
							if heldPL != nil && da != nil {
								if plB, err := d.PostingsList(t, da, nil); err == nil {
									if itB, err := plB.Iterator(true, true, true, heldIt); err == nil {
										_ = drain(itB)
									}
								}
								cnt := heldPL.Count()
								var again []uint64
								if it2, err := heldPL.Iterator(true, true, true, nil); err == nil {
									again = drain(it2)
								}
								if (cnt != uint64(len(heldDocs)) || fmt.Sprint(again) != fmt.Sprint(heldDocs)) && heldBad == "" {
									heldBad = fmt.Sprintf("segment %d field %x: the postings list of term %x held by the caller reported documents %v; after its iterator was handed as prealloc to the list of term %x (with an exclusion bitmap) it reports Count=%d documents %v", a, f, heldTerm, heldDocs, t, cnt, again)
								}
							}
							heldPL, heldIt, heldDocs, heldTerm = plA, itA, docsA, t
						}
					}
					return ""
				})
			}
		}
		// plain reads between the snapshots: the whole script once more with earlier objects handed
		// back as prealloc, and DocsMatchingTerms on present and absent (field, term) pairs
		rcx := newReuse(true, hashString(c.ID))
		reentry := ""
		for qi, q := range c.Queries {
			_ = w.Exec(q, rcx)
			// a read started while another read of the same segment is delivering its values
			if q[0] == "stored" && qi < len(tr1) {
				inner := c.Queries[(qi*7+3)%len(c.Queries)]
				if a := w.execReentrant(q, inner); a != tr1[qi] && reentry == "" {
					reentry = fmt.Sprintf("`%s` with `%s` (and nested visits) issued from inside its visitor: the values delivered changed\n  alone:  %s\n  nested: %s", strings.Join(q, " "), strings.Join(inner, " "), tr1[qi], a)
				}
			}
		}
		for si := range w.segs {
			if !ok(w.segs[si]) {
				continue
			}
			for _, f := range cb.u.fields {
				for _, t := range cb.u.terms {
					_ = w.Exec(Query{"match", itoa(si), hx(f) + ":" + hx(t), hx(f) + ":6e6f2d737563682d7465726d", "6e6f6e65:" + hx(t)}, rcx)
				}
			}
		}
		// statistics are values handed to the caller: accumulating into them (the usual aggregation
		// over segments) must not change what a segment reports
		for si := range w.segs {
			if !ok(w.segs[si]) {
				continue
			}
			for _, f := range cb.u.fields {
				guard(opTimeout, func() string {
					acc, err := w.segs[si].seg.CollectionStats(string(f))
					if err != nil {
						return ""
					}
					for sj := range w.segs {
						if ok(w.segs[sj]) {
							if st, err := w.segs[sj].seg.CollectionStats(string(f)); err == nil {
								acc.Merge(st)
							}
						}
					}
					return ""
				})
			}
		}
		img2, tr2 := snap()
		bad := reentry
		if heldBad != "" {
			bad = heldBad
		}
		for j := range img1 {
			if !bytes.Equal(img1[j], img2[j]) {
				bad = fmt.Sprintf("persisted bytes of segment %d changed", j)
			}
		}
		if d := firstDiff(tr1, tr2); d >= 0 && bad == "" {
			bad = fmt.Sprintf("answer to `%s` changed:\n  before: %s\n  after:  %s", strings.Join(c.Queries[d], " "), tr1[d], tr2[d])
		}
		for j := range shared {
			b, _ := shared[j].ToBytes()
			if !shared[j].Equals(clones[j]) {
				bad = fmt.Sprintf("caller's bitmap %d was modified (set changed)", j)
			} else if !bytes.Equal(b, ser[j]) {
				bad = fmt.Sprintf("caller's bitmap %d was modified (representation changed)", j)
			}
		}
		if bad != "" {
			mu.Lock()
			vs = append(vs, Violation{Prop: "C15", CaseID: c.ID, Kind: "fault", Case: c, Detail: bad})
			mu.Unlock()
		}
		nt := final >= 1 && len(shared) > 0
		e.noteCase(c, nt)
		e.mu.Lock()
		e.rep.Queries += 2 * len(c.Queries)
		e.mu.Unlock()
	})
	return vs
}

// ---------- C09: concurrency and re-entrancy ----------

func legC09(e *Engine) []Violation {
	ncase := 24
	threads := 8
	if e.tier == "thorough" {
		ncase = 300
	}
	if raceEnabled {
		ncase /= 3
	}
	var vs []Violation
	var mu sync.Mutex
	var answers int64
	for i := 0; i < ncase; i++ {
		r := NewRng(e.seed, "C09", uint64(i))
		cb := newCaseBuilder(caseID("C09", e.seed, i), r)
		class := "tiny"
		if i%8 == 7 {
			class = "block"
		}
		var final int
		if i%8 == 3 {
			// more than one 1024-document doc-value chunk: concurrent and nested readers must not
			// share a chunk cache
			class = "chunk"
			cb.u.dvOK[string(cb.u.fields[0])] = true
			cb.u.dvAll = true
			if len(cb.u.terms) > 4 {
				cb.u.terms = cb.u.terms[:4]
			}
			docs, m, api := cb.genLeaf("chunk", "d")
			final = cb.addBuild(docs, m, api)
			n := cb.n[final]
			for k := 0; k < 24; k++ {
				var order []int
				for x := 0; x < 6; x++ {
					order = append(order, []int{r.Intn(n), 1023, 1024, 0, n - 1, 1025}[r.Intn(6)]%n)
				}
				cb.q("dv", itoa(final), hxList(cb.u.fields), intList(order))
			}
			for _, d := range cb.sampleDocs(n, 12) {
				cb.q("stored", itoa(final), itoa(d), "-1")
			}
		} else {
			final, _ = cb.genMergePlan(class, false)
		}
		for s := 0; s <= final && class != "chunk"; s++ {
			if class == "tiny" || s == 0 || s == final {
				cb.observeAll(s)
			}
		}
		{
			var all []string
			for s := 0; s <= final; s++ {
				all = append(all, itoa(s))
			}
			for _, f := range append(cb.queryFields(), []byte("nosuchfield")) {
				cb.q("statsmerge", strings.Join(all, ","), hx(f))
			}
		}
		c := cb.c
		w := BuildWorld(c)
		seq := make([]string, len(c.Queries))
		for j, q := range c.Queries {
			seq[j] = w.Exec(q, nil)
		}
		// the sequential answers themselves are checked against the specification
		lines := make([]string, len(seq))
		for j := range seq {
			lines[j] = fmt.Sprintf("r %s %d %s", c.ID, j, seq[j])
		}
		spec, err := e.runModel("spec", []*Case{c})
		if err == nil {
			if d := firstDiff(lines, spec[c.ID]); d >= 0 {
				vs = append(vs, Violation{Prop: "C09", CaseID: c.ID, Kind: "spec-mismatch", Case: c,
					Detail: fmt.Sprintf("single-threaded answer %d differs from the specification\n  impl: %s\n  spec: %s", d, lines[d], spec[c.ID][d])})
				w.Close()
				continue
			}
		}
		stop := make(chan struct{})
		var mwg sync.WaitGroup
		// the reference output of the merge, alone
		var mergeRef []byte
		{
			var segs []segment.Segment
			var drops []*roaring.Bitmap
			for _, s := range w.segs {
				if s.err == "" {
					segs = append(segs, s.seg)
					drops = append(drops, nil)
				}
			}
			var buf bytes.Buffer
			guard(opTimeout, func() string {
				if _, err := ice.Merge(segs, drops, 4096).WriteTo(&buf, nil); err == nil {
					mergeRef = append([]byte(nil), buf.Bytes()...)
				}
				return ""
			})
		}
		mergeBad := int32(0)
		// TWO merges of the shared segments loop meanwhile (a segment may be an input of several)
		for mi := 0; mi < 2; mi++ {
			mwg.Add(1)
			go func() {
				defer mwg.Done()
				var segs []segment.Segment
				var drops []*roaring.Bitmap
				for _, s := range w.segs {
					if s.err == "" {
						segs = append(segs, s.seg)
						drops = append(drops, nil)
					}
				}
				for {
					select {
					case <-stop:
						return
					default:
					}
					var buf bytes.Buffer
					guard(opTimeout, func() string {
						_, err := ice.Merge(segs, drops, 4096).WriteTo(&buf, nil)
						if err == nil && mergeRef != nil && !bytes.Equal(buf.Bytes(), mergeRef) {
							atomic.StoreInt32(&mergeBad, 1)
						}
						return ""
					})
				}
			}()
		}
		var wg sync.WaitGroup
		bad := ""
		for t := 0; t < threads; t++ {
			wg.Add(1)
			go func(t int) {
				defer wg.Done()
				rr := NewRng(e.seed, "C09-thread", uint64(i*100+t))
				order := permute(rr, len(c.Queries))
				// every other goroutine hands its OWN earlier lists / iterators / readers back as
				// prealloc (the intended usage; objects are never shared between goroutines)
				var rc *ReuseCtx
				if t%2 == 1 {
					rc = newReuse(true, uint64(i*100+t))
				}
				for _, j := range order {
					var a string
					if c.Queries[j][0] == "stored" && rr.Chance(1, 2) {
						a = w.execReentrant(c.Queries[j], c.Queries[order[rr.Intn(len(order))]])
					} else if c.Queries[j][0] == "dv" && rr.Chance(1, 2) {
						a = w.execReentrantDV(c.Queries[j])
					} else {
						a = w.Exec(c.Queries[j], rc)
					}
					atomic.AddInt64(&answers, 1)
					if a != seq[j] {
						mu.Lock()
						if bad == "" {
							bad = fmt.Sprintf("goroutine %d: `%s`\n  concurrent: %s\n  alone:      %s", t, strings.Join(c.Queries[j], " "), a, seq[j])
						}
						mu.Unlock()
					}
				}
			}(t)
		}
		wg.Wait()
		close(stop)
		mwg.Wait()
		w.Close()
		if bad == "" && atomic.LoadInt32(&mergeBad) != 0 {
			bad = "a merge of the shared segments, running next to another merge of the same segments and to the readers, wrote a file that differs from the file the same merge writes alone"
		}
		if bad != "" {
			vs = append(vs, Violation{Prop: "C09", CaseID: c.ID, Kind: "fault", Case: c, Detail: bad,
				Extra: fmt.Sprintf("# schedule: %d goroutines, each the whole script in its own order, merge looping; race build=%v\n", threads, raceEnabled)})
		}
		e.noteCase(c, true)
	}
	e.rep.Queries += int(answers)
	e.count("concurrent-answers-compared", int(answers))
	if raceEnabled {
		e.count("race-detector-build", 1)
	}
	return vs
}

// execReentrant answers a stored-fields query whose visitor re-enters the read API (another
// query on the same world, and a nested visit of the same document) from inside the callback.
func (w *World) execReentrant(q Query, inner Query) string {
	return guard(opTimeout, func() string {
		rs, e := w.segOf(q[1])
		if rs == nil {
			return e
		}
		var n uint64
		fmt.Sscan(q[2], &n)
		stop := -1
		fmt.Sscan(q[3], &stop)
		var out []string
		err := rs.seg.VisitStoredFields(n, func(field string, value []byte) bool {
			// copy first: this is what the callback was given
			out = append(out, hx([]byte(field))+":"+hx(value))
			// re-enter: a nested visit of the same and of another document, and another query
			_ = rs.seg.VisitStoredFields(n, func(string, []byte) bool { return true })
			if n > 0 {
				_ = rs.seg.VisitStoredFields(n-1, func(string, []byte) bool { return true })
			}
			// ... and of documents in other 128-document blocks
			_ = rs.seg.VisitStoredFields(n+128, func(string, []byte) bool { return true })
			if n >= 130 {
				_ = rs.seg.VisitStoredFields(n-130, func(string, []byte) bool { return true })
			}
			_ = w.exec(inner, nil)
			// the value handed to us must still be intact after the nested calls
			if out[len(out)-1] != hx([]byte(field))+":"+hx(value) {
				out[len(out)-1] = "corrupted-after-reentry"
			}
			return !(stop >= 0 && len(out) >= stop)
		})
		if err != nil {
			return "err"
		}
		return strings.Join(out, " ")
	})
}

// execReentrantDV answers a doc-value query whose visitor, on its first call for each document,
// opens a second reader on the same fields and visits a document of another 1024-document chunk.
func (w *World) execReentrantDV(q Query) string {
	return guard(opTimeout, func() string {
		rs, e := w.segOfTok(q[1])
		if rs == nil {
			return e
		}
		var fields []string
		if q[2] != "." {
			for _, h := range strings.Split(q[2], ",") {
				b, _ := unhx(h)
				fields = append(fields, string(b))
			}
		}
		r, err := rs.obs.DocumentValueReader(fields)
		if err != nil {
			return "err"
		}
		n := rs.obs.Count()
		var parts []string
		for _, ds := range parseU32List(q[3]) {
			var out []string
			nested := false
			err := r.VisitDocumentValues(uint64(ds), func(field string, term []byte) {
				out = append(out, hx([]byte(field))+":"+hx(term))
				if !nested && n > 0 {
					nested = true
					r2, err := rs.obs.DocumentValueReader(fields)
					if err == nil {
						_ = r2.VisitDocumentValues((uint64(ds)+1024)%n, func(string, []byte) {})
						_ = r2.VisitDocumentValues((uint64(ds)+1)%n, func(string, []byte) {})
					}
				}
			})
			if err != nil {
				return "err"
			}
			parts = append(parts, strings.Join(out, " "))
		}
		return strings.Join(parts, " | ")
	})
}

func (w *World) segOfTok(tok string) (*RSeg, string) { return w.segOf(tok) }

var _ = math.MaxInt64

// legC11: persisting the same segment object again after a failed attempt.  A first WriteTo into a
// writer that fails part-way (disk full) must not influence a later WriteTo into a healthy writer:
// the second file is the reference file, byte for byte, CRC included.  Also interleaves successful
// persists, so that anything a WriteTo caches in the segment is exercised.
func legC11(e *Engine) []Violation {
	ncase := 12
	if e.tier == "thorough" {
		ncase = 120
	}
	var vs []Violation
	var mu sync.Mutex
	var attempts int64
	parallel(ncase, func(i int) {
		r := NewRng(e.seed, "C11-retry", uint64(i))
		cb := newCaseBuilder(caseID("C11rt", e.seed, i), r)
		final, _ := cb.genMergePlan("tiny", false)
		if r.Chance(1, 2) {
			final = cb.addLoad(final, []string{"mem", "file"}[r.Intn(2)])
		}
		c := cb.c
		w := BuildWorld(c)
		defer w.Close()
		for si, s := range w.segs {
			if s.err != "" {
				continue
			}
			// the reference file comes from a FRESH twin of the segment where possible: the object
			// under test has then never been persisted before the failing attempt
			ref, _, err := persist(s.seg)
			if err != nil {
				return
			}
			twin, err := ice.Load(segment.NewDataBytes(append([]byte(nil), ref...)))
			if err != nil {
				return
			}
			total := len(ref)
			ks := []int{0, 1, total / 3, total / 2, total - 45, total - 44, total - 43, total - 5, total - 4, total - 1}
			for x := 0; x < 4; x++ {
				ks = append(ks, r.Intn(total))
			}
			for _, obj := range []segment.Segment{twin, s.seg} {
				for _, k := range ks {
					if k < 0 || k >= total {
						continue
					}
					atomic.AddInt64(&attempts, 1)
					lw := &limitWriter{limit: k, closeAt: -1, ch: make(chan struct{})}
					_, ferr := obj.WriteTo(lw, nil)
					again, n, err := persist(obj)
					bad := ""
					switch {
					case ferr == nil:
						bad = "the failing attempt reported success"
					case err != nil:
						bad = fmt.Sprintf("the healthy attempt failed: %v", err)
					case n != int64(len(again)):
						bad = fmt.Sprintf("the healthy attempt returned %d for %d bytes", n, len(again))
					case !bytes.Equal(again, ref):
						bad = "the healthy attempt wrote a different file"
						if len(again) == len(ref) && bytes.Equal(again[:len(again)-4], ref[:len(ref)-4]) {
							bad += fmt.Sprintf(" (only the CRC differs: %x, want %x)", again[len(again)-4:], ref[len(ref)-4:])
						}
					}
					if bad != "" {
						mu.Lock()
						vs = append(vs, Violation{Prop: "C11", CaseID: c.ID, Kind: "fault", Case: c,
							Detail: fmt.Sprintf("segment %d: WriteTo into a writer failing after %d of %d bytes, then WriteTo of the same segment into a healthy writer: %s", si, k, total, bad),
							Extra:  fmt.Sprintf("# history: segment %d; WriteTo(writer failing after %d bytes) -> error; WriteTo(healthy) -> compared with the file of a first healthy WriteTo\n", si, k)})
						mu.Unlock()
						return
					}
				}
			}
		}
		// the final merge once more, into a destination that is itself a bufio.Writer (smaller and
		// larger than the merge buffer): after the caller's own Flush the destination holds exactly
		// the returned number of bytes, and they are the reference file
		for si := len(c.Segs) - 1; si >= 0; si-- {
			sd := c.Segs[si]
			if sd.Kind != "merge" || w.segs[si].err != "" {
				continue
			}
			segs := make([]segment.Segment, len(sd.Ins))
			bad := false
			for j, in := range sd.Ins {
				if w.segs[in.Seg].err != "" {
					bad = true
				}
				segs[j] = w.segs[in.Seg].seg
			}
			if bad {
				break
			}
			mkDrops := func() []*roaring.Bitmap {
				drops := make([]*roaring.Bitmap, len(sd.Ins))
				for j, in := range sd.Ins {
					if !in.Nil {
						drops[j] = bitmapOf(in.Drops)
					}
				}
				return drops
			}
			var plain bytes.Buffer
			if _, err := ice.Merge(segs, mkDrops(), 4096).WriteTo(&plain, nil); err != nil {
				break
			}
			ref := plain.Bytes()
			{
				// one Merger written to two destinations, one after the other
				mg := ice.Merge(segs, mkDrops(), 4096)
				var d1, d2 bytes.Buffer
				n1, e1 := mg.WriteTo(&d1, nil)
				n2, e2 := mg.WriteTo(&d2, nil)
				if e1 != nil || e2 != nil || n1 != int64(d1.Len()) || n2 != int64(d2.Len()) || !bytes.Equal(d1.Bytes(), ref) || !bytes.Equal(d2.Bytes(), ref) {
					mu.Lock()
					vs = append(vs, Violation{Prop: "C11", CaseID: c.ID, Kind: "fault", Case: c,
						Detail: fmt.Sprintf("merge %d: one Merger, WriteTo called twice with two destinations: first (n=%d, %d bytes, err=%v, equal to the reference file=%v), second (n=%d, %d bytes, err=%v, equal=%v)", si, n1, d1.Len(), e1, bytes.Equal(d1.Bytes(), ref), n2, d2.Len(), e2, bytes.Equal(d2.Bytes(), ref))})
					mu.Unlock()
					return
				}
			}
			for _, sizes := range [][2]int{{16, 1 << 20}, {4096, 1 << 20}, {4096, 64}, {64, 64}, {1 << 16, 4096}} {
				drops := mkDrops()
				var dst bytes.Buffer
				bw := bufio.NewWriterSize(&dst, sizes[0])
				n, err := ice.Merge(segs, drops, sizes[1]).WriteTo(bw, nil)
				ferr := bw.Flush()
				msg := ""
				switch {
				case err != nil || ferr != nil:
					msg = fmt.Sprintf("error %v / %v", err, ferr)
				case n != int64(dst.Len()):
					msg = fmt.Sprintf("WriteTo returned %d, %d bytes reached the destination", n, dst.Len())
				case !bytes.Equal(dst.Bytes(), ref):
					msg = "the bytes differ from the file of the same merge written into a plain buffer"
				}
				if msg != "" {
					mu.Lock()
					vs = append(vs, Violation{Prop: "C11", CaseID: c.ID, Kind: "fault", Case: c,
						Detail: fmt.Sprintf("merge %d written through Merger.WriteTo(merge buffer %d) into a bufio.Writer of %d bytes, then flushed by the caller: %s", si, sizes[1], sizes[0], msg)})
					mu.Unlock()
					return
				}
				atomic.AddInt64(&attempts, 1)
			}
			break
		}
		e.noteCase(c, true)
	})
	e.count("persist-after-failed-persist", int(attempts))
	// a segment whose data section exceeds 1 MiB (incompressible stored values): byte count,
	// CRC, footer and re-persist of the built segment and of its loaded copies
	{
		r := NewRng(e.seed, "C11-big", 0)
		cb := newCaseBuilder(caseID("C11big", e.seed, 0), r)
		cb.u.fields = [][]byte{[]byte("_id"), []byte("blob")}
		docs := make([]Doc, 330)
		for d := range docs {
			id := []byte(fmt.Sprintf("d%d", d))
			docs[d] = Doc{{Name: []byte("_id"), Length: 1, Terms: []TermOcc{{Term: id, Freq: 1}}},
				{Name: []byte("blob"), Store: true, Value: randBytes(r, 4096)}}
		}
		sg := cb.addBuild(docs, 1024, "hook")
		lm := cb.addLoad(sg, "mem")
		lf := cb.addLoad(sg, "file")
		for _, x := range []int{sg, lm, lf} {
			cb.q("crc", itoa(x))
			cb.q("repersist", itoa(x))
		}
		w := BuildWorld(cb.c)
		for i, q := range cb.c.Queries {
			a := w.Exec(q, nil)
			if !strings.HasPrefix(a, "ok") && a != "same" {
				vs = append(vs, Violation{Prop: "C11", CaseID: cb.c.ID, Kind: "fault",
					Case:   &Case{ID: cb.c.ID, Queries: []Query{{"(330 documents, each with a 4096-byte incompressible stored value: more than 1 MiB of data; regenerate with the seed)"}, q}},
					Detail: fmt.Sprintf("segment of more than 1 MiB, query %d `%s`: %s", i, strings.Join(q, " "), a)})
				break
			}
		}
		w.Close()
		e.count("segments-above-1MiB", 1)
	}
	return vs
}

// crossProcess builds `target` in two fresh processes of this binary (see cmdBuildHash): alone,
// and after a one-document batch and a 300-document batch.  "" if the bytes agree.
func crossProcess(cb *caseBuilder, target []Doc, mode uint32) string {
	exe, err := os.Executable()
	if err != nil {
		return ""
	}
	c := &Case{ID: cb.c.ID + "x", Norm: cb.c.Norm}
	tiny := []Doc{{{Name: []byte("_id"), Length: 1, Store: true, Value: []byte("a"), Terms: []TermOcc{{Term: []byte("a"), Freq: 1}}}}}
	big := make([]Doc, 300)
	for d := range big {
		id := []byte(fmt.Sprintf("h%d", d))
		big[d] = Doc{{Name: []byte("_id"), Length: 1, Store: true, Value: id, Terms: []TermOcc{{Term: id, Freq: 1}}},
			{Name: []byte("body"), Length: 3, Store: true, Value: []byte("some stored text that repeats, some stored text that repeats"), Terms: []TermOcc{{Term: []byte("some"), Freq: 2}, {Term: []byte("text"), Freq: 1}}}}
	}
	dir := filepath.Join(workDir(), "tmp")
	_ = os.MkdirAll(dir, 0o755)
	run := func(first, second []Doc, history bool) string {
		c.Segs = []SegDef{{Kind: "build", Mode: 1024, API: "hook", Docs: first}, {Kind: "build", Mode: 1024, API: "hook", Docs: second}, {Kind: "build", Mode: mode, API: "hook", Docs: target}}
		p := filepath.Join(dir, fmt.Sprintf("c14-%d-%d.case", os.Getpid(), atomic.AddUint64(&tmpSeq, 1)))
		f, err := os.Create(p)
		if err != nil {
			return "run-error"
		}
		c.Write(f)
		f.Close()
		defer os.Remove(p)
		args := []string{"buildhash", "-file", p}
		if history {
			args = append(args, "-history")
		}
		out, err := exec.Command(exe, args...).Output()
		if err != nil {
			return "run-error"
		}
		return strings.TrimSpace(string(out))
	}
	alone := run(tiny, big, false)
	afterSmallFirst := run(tiny, big, true)
	afterLargeFirst := run(big, tiny, true)
	for _, x := range []string{alone, afterSmallFirst, afterLargeFirst} {
		if x == "run-error" {
			return "" // a framework problem, not the property
		}
	}
	if alone != afterSmallFirst || alone != afterLargeFirst {
		return fmt.Sprintf("the bytes New produces for the target batch depend on what was built before IN THE SAME PROCESS (sha256 / length): %s as the first build of a fresh process, %s after a 1-document then a 300-document batch, %s after the 300-document then the 1-document batch (process-wide state outside the pooled builder)", alone, afterSmallFirst, afterLargeFirst)
	}
	return ""
}

// manyTerms: n documents with a unique id and a handful of words from a large pseudo-random
// vocabulary: well over a thousand distinct (field, term) pairs.
func manyTerms(r *Rng, n int) []Doc {
	word := func() []byte {
		l := r.Range(3, 9)
		b := make([]byte, l)
		for i := range b {
			b[i] = byte('a' + r.Intn(26))
		}
		return b
	}
	docs := make([]Doc, n)
	for d := range docs {
		id := []byte(fmt.Sprintf("doc-%d", d))
		f := FieldInst{Name: []byte("body"), Store: r.Chance(1, 2), Value: []byte("v")}
		for k := r.Range(4, 8); k > 0; k-- {
			f.Terms = append(f.Terms, TermOcc{Term: word(), Freq: 1})
			f.Length++
		}
		docs[d] = Doc{{Name: []byte("_id"), Length: 1, Terms: []TermOcc{{Term: id, Freq: 1}}}, f}
	}
	return docs
}

// legC06big: stored values of hundreds of KB (a 128-document block gathers more than 1 MiB
// before it is complete), compared with the INPUT directly - too large for the line protocol of
// the Lean driver.  Built, loaded (both backings), merged without and with a deletion.
func legC06big(e *Engine) []Violation {
	r := NewRng(e.seed, "C06-big", 0)
	n := 9
	vals := make([][]byte, n)
	docs := make([]Doc, n)
	for d := range docs {
		sz := r.Range(3, 40)
		if d == 0 || d == 1 || d == 5 {
			sz = 700*1024 + r.Intn(5000)
		}
		v := make([]byte, sz)
		for i := range v {
			v[i] = byte('a' + (i*7+d*13)%26)
		}
		copy(v, fmt.Sprintf("doc-%d-", d))
		vals[d] = v
		id := []byte(fmt.Sprintf("d%d", d))
		docs[d] = Doc{{Name: []byte("_id"), Length: 1, Store: true, Value: id, Terms: []TermOcc{{Term: id, Freq: 1}}},
			{Name: []byte("blob"), Store: true, Value: v}}
	}
	check := func(what string, s segment.Segment, keep []int) string {
		for newNum, d := range keep {
			var got [][]byte
			var names []string
			err := s.VisitStoredFields(uint64(newNum), func(f string, v []byte) bool {
				names = append(names, f)
				got = append(got, append([]byte(nil), v...))
				return true
			})
			if err != nil {
				return fmt.Sprintf("%s: VisitStoredFields(%d): %v", what, newNum, err)
			}
			if len(got) != 2 || names[0] != "_id" || names[1] != "blob" || string(got[0]) != fmt.Sprintf("d%d", d) || !bytes.Equal(got[1], vals[d]) {
				g := ""
				if len(got) > 0 {
					g = string(got[0])
				}
				return fmt.Sprintf("%s: document %d (input document %d): delivered %d values %v, first %q; want _id=d%d and the %d-byte blob of that document", what, newNum, d, len(got), names, g, d, len(vals[d]))
			}
		}
		return ""
	}
	all := []int{0, 1, 2, 3, 4, 5, 6, 7, 8}
	bad := guard(opTimeout, func() string {
		s, _, err := ice.VerifNew(toDocs(docs), normFunc([3]uint64{1, 1, 1}), 1024)
		if err != nil {
			return "New failed: " + err.Error()
		}
		if m := check("built", s, all); m != "" {
			return m
		}
		img, _, err := persist(s)
		if err != nil {
			return "WriteTo failed: " + err.Error()
		}
		l, err := ice.Load(segment.NewDataBytes(img))
		if err != nil {
			return "Load failed: " + err.Error()
		}
		if m := check("loaded", l, all); m != "" {
			return m
		}
		for _, drops := range [][]uint32{nil, {2}} {
			var bm *roaring.Bitmap
			keep := all
			if drops != nil {
				bm = bitmapOf(drops)
				keep = []int{0, 1, 3, 4, 5, 6, 7, 8}
			}
			var buf bytes.Buffer
			if _, err := ice.Merge([]segment.Segment{l}, []*roaring.Bitmap{bm}, 4096).WriteTo(&buf, nil); err != nil {
				return "Merge failed: " + err.Error()
			}
			ml, err := ice.Load(segment.NewDataBytes(buf.Bytes()))
			if err != nil {
				return "Load of the merged file failed: " + err.Error()
			}
			if m := check(fmt.Sprintf("merged (deletions %v)", drops), ml, keep); m != "" {
				return m
			}
		}
		return ""
	})
	e.count("big-stored-value-segments", 1)
	if bad != "" {
		return []Violation{{Prop: "C06", CaseID: caseID("C06big", e.seed, 0), Kind: "fault",
			Case:   &Case{ID: caseID("C06big", e.seed, 0), Queries: []Query{{"(9 documents; documents 0, 1 and 5 store a value of about 700 KiB: regenerate with the seed)"}}},
			Detail: "stored values of hundreds of KiB: " + bad}}
	}
	return nil
}
