package main

import (
	"fmt"
	"sort"
)

// Structured, mostly-valid-by-construction generators.  Every choice comes from one Rng,
// itself a function of (VERIF_SEED, property, case index).

var fieldPool = [][]byte{[]byte("_id"), []byte("a"), []byte("b"), []byte("cc"), []byte("name"),
	[]byte("_all"), {0x00, 'z'}, []byte("zz"), {0xc3, 0xa9}, []byte("_ie"), []byte("nam"), []byte("_i"), {}}

var termPool = [][]byte{{}, []byte("a"), []byte("b"), []byte("ab"), []byte("abc"), {'b', 0x00},
	{0x00}, []byte("wh"), []byte("x"), {0xff}, {'a', 0xff}, []byte("zzzz"), {0x01, 0x80}, []byte("aa")}

type Universe struct {
	fields [][]byte
	dvOK   map[string]bool // dv-capable names: their terms never contain 0xff
	dvAll  bool            // every instance of a dv-capable field asks for doc values (DVConsistent)
	terms  [][]byte
	exact  bool // Length = Σ freq (C16/C17 contract)
	wide   bool // more than 128 fields
	// frequencies beyond 32 bits (and no locations at all)
	hugeFreq bool
}

func has0xff(b []byte) bool {
	for _, x := range b {
		if x == 0xff {
			return true
		}
	}
	return false
}

func genUniverse(r *Rng) *Universe {
	u := &Universe{dvOK: map[string]bool{}}
	nf := r.Range(1, 5)
	perm := permute(r, len(fieldPool))
	if r.Chance(4, 5) {
		u.fields = append(u.fields, fieldPool[0])
	}
	for _, i := range perm {
		if len(u.fields) >= nf {
			break
		}
		if i == 0 {
			continue
		}
		u.fields = append(u.fields, fieldPool[i])
	}
	if r.Chance(1, 14) {
		// wide universe: field ids beyond one varint byte (128) and beyond one byte (256)
		u.wide = true
		n := []int{126, 131, 200, 259, 300}[r.Intn(5)]
		for i := 0; i < n; i++ {
			u.fields = append(u.fields, []byte(fmt.Sprintf("w%03d", i)))
		}
	}
	for _, f := range u.fields {
		if r.Chance(1, 2) {
			u.dvOK[string(f)] = true
		}
	}
	u.dvAll = r.Chance(6, 7)
	nt := r.Range(2, 8)
	for _, i := range permute(r, len(termPool)) {
		if len(u.terms) >= nt {
			break
		}
		u.terms = append(u.terms, termPool[i])
	}
	if r.Chance(1, 3) {
		n := r.Range(1, 3)
		t := make([]byte, n)
		for i := range t {
			t[i] = byte(r.Intn(256))
		}
		u.terms = append(u.terms, t)
	}
	u.hugeFreq = r.Chance(1, 12)
	if r.Chance(1, 9) {
		// a long term: its length (and the doc-value bytes of its documents) need a two-byte varint
		n := []int{127, 128, 130, 300, 5000}[r.Intn(5)]
		t := make([]byte, n)
		for i := range t {
			t[i] = byte('a' + r.Intn(20))
		}
		u.terms = append(u.terms, t)
	}
	return u
}

func permute(r *Rng, n int) []int {
	p := make([]int, n)
	for i := range p {
		p[i] = i
	}
	for i := n - 1; i > 0; i-- {
		j := r.Intn(i + 1)
		p[i], p[j] = p[j], p[i]
	}
	return p
}

func (u *Universe) termFor(r *Rng, field []byte) []byte {
	for tries := 0; tries < 20; tries++ {
		t := u.terms[r.Intn(len(u.terms))]
		if u.dvOK[string(field)] && has0xff(t) {
			continue
		}
		return t
	}
	return []byte("t")
}

var varintEdges = []int{127, 128, 129, 255, 256, 16383, 16384, 16385, 2097151, 2097152}

var wideEdges = []int{1<<31 - 1, 1 << 31, 1<<32 - 1, 1 << 32, 1<<32 + 7, 1<<35 + 3, 1<<53 + 1}

func smallOrBig(r *Rng) int {
	if r.Chance(1, 7) {
		return varintEdges[r.Intn(len(varintEdges))] // values at which a varint grows by a byte
	}
	if r.Chance(1, 40) {
		return wideEdges[r.Intn(len(wideEdges))] // values that do not survive a 32-bit (or float64) detour
	}
	switch r.Intn(10) {
	case 0:
		return r.Range(128, 300)
	case 1:
		return r.Range(16384, 70000)
	default:
		return r.Intn(20)
	}
}

type docOpts struct {
	maxInst    int
	maxTerms   int
	idTerm     []byte // non-nil: add an `_id`-style unique single term (1-hit material)
	fieldsOnly [][]byte
	bigValue   bool
}

func (u *Universe) genDoc(r *Rng, o docOpts) Doc {
	var d Doc
	fields := u.fields
	if o.fieldsOnly != nil {
		fields = o.fieldsOnly
	}
	if o.idTerm != nil {
		f := FieldInst{Name: []byte("_id"), Length: 1, Store: r.Chance(3, 4), Value: o.idTerm,
			Terms: []TermOcc{{Term: o.idTerm, Freq: 1}}}
		if u.dvOK["_id"] && u.dvAll {
			f.DV = true
		}
		d = append(d, f)
	}
	ni := r.Intn(o.maxInst + 1)
	if r.Chance(1, 90) {
		ni = r.Range(50, 70) // dozens of values of the same few fields in one document
	}
	for i := 0; i < ni; i++ {
		name := fields[r.Intn(len(fields))]
		f := FieldInst{Name: name}
		if r.Chance(1, 2) {
			f.Store = true
			switch r.Intn(6) {
			case 0:
				f.Value = []byte{}
			case 1:
				if o.bigValue {
					f.Value = randBytes(r, r.Range(20, 90))
				} else if r.Chance(1, 6) {
					// value lengths at which the length varint grows
					f.Value = randBytes(r, []int{127, 128, 129, 300, 16384, 17000, 200000}[r.Intn(7)])
				} else {
					f.Value = randBytes(r, r.Range(7, 12))
				}
			default:
				f.Value = randBytes(r, r.Range(1, 6))
			}
		}
		if u.dvOK[string(name)] {
			f.DV = u.dvAll || r.Chance(1, 2)
		}
		nt := r.Intn(o.maxTerms + 1)
		sum := 0
		for j := 0; j < nt; j++ {
			t := TermOcc{Term: u.termFor(r, name)}
			nl := 0
			if r.Chance(1, 2) && !u.hugeFreq {
				nl = r.Range(1, 3)
				if r.Chance(1, 60) {
					nl = []int{32, 43, 127, 128, 140, 1100}[r.Intn(6)] // location counts / byte counts past one (two) varint bytes
				}
			}
			for k := 0; k < nl; k++ {
				l := Loc{Pos: smallOrBig(r), Start: smallOrBig(r), End: smallOrBig(r)}
				if r.Chance(2, 5) {
					l.Field = u.fields[r.Intn(len(u.fields))]
				}
				t.Locs = append(t.Locs, l)
			}
			t.Freq = nl + r.Intn(3)
			if t.Freq == 0 {
				t.Freq = 1
			}
			if r.Chance(1, 25) {
				t.Freq += r.Range(100, 100000)
			} else if u.hugeFreq && r.Chance(1, 6) {
				// (only in universes without locations: the iterator allocates one Location per
				// unit of frequency when the posting has locations - memory use is outside the properties)
				t.Freq += []int{1<<31 - 1, 1 << 31, 1 << 32, 1<<33 + 1}[r.Intn(4)]
			}
			sum += t.Freq
			f.Terms = append(f.Terms, t)
		}
		f.Length = sum
		if !u.exact {
			f.Length += r.Intn(4)
			if r.Chance(1, 12) {
				f.Length = 0 // a field may report length 0 and still carry terms (keyword analyzers)
			}
		}
		d = append(d, f)
	}
	return d
}

func randBytes(r *Rng, n int) []byte {
	b := make([]byte, n)
	for i := range b {
		b[i] = byte(r.Intn(256))
	}
	return b
}

// fixLocs enforces "a location's field name is empty or names a field of the same batch".
func fixLocs(docs []Doc) {
	names := map[string]bool{}
	for _, d := range docs {
		for _, f := range d {
			names[string(f.Name)] = true
		}
	}
	for _, d := range docs {
		for i := range d {
			for j := range d[i].Terms {
				for k := range d[i].Terms[j].Locs {
					l := &d[i].Terms[j].Locs[k]
					if len(l.Field) > 0 && !names[string(l.Field)] {
						l.Field = nil
					}
				}
			}
		}
	}
}

// locsValid: every location's field name is empty or a field of the batch.
func locsValid(docs []Doc) bool {
	names := map[string]bool{}
	for _, d := range docs {
		for _, f := range d {
			names[string(f.Name)] = true
		}
	}
	for _, d := range docs {
		for _, f := range d {
			for _, t := range f.Terms {
				for _, l := range t.Locs {
					if len(l.Field) > 0 && !names[string(l.Field)] {
						return false
					}
				}
			}
		}
	}
	return true
}

func (u *Universe) genBatch(r *Rng, n int, o docOpts, idPrefix string) []Doc {
	docs := make([]Doc, n)
	withID := r.Chance(3, 5)
	for i := range docs {
		oo := o
		if withID && r.Chance(9, 10) {
			oo.idTerm = []byte(fmt.Sprintf("%s%d", idPrefix, i))
		}
		docs[i] = u.genDoc(r, oo)
	}
	// completely empty documents at the start, the end and around block / chunk boundaries
	if n >= 2 && r.Chance(1, 4) {
		for _, p := range []int{0, n - 1, n / 2, 126, 127, 128, 129, 1023, 1024, 1025} {
			if p < n && r.Chance(1, 2) {
				docs[p] = Doc{}
			}
		}
	}
	fixLocs(docs)
	return docs
}

var tinyModes = []uint32{1, 2, 3, 4, 5, 1, 2, 3, 1024, 1025}

func tinyMode(r *Rng) (uint32, string) {
	if r.Chance(1, 8) {
		return 1025, "pub"
	}
	return tinyModes[r.Intn(len(tinyModes))], "hook"
}

// caseBuilder tracks what the generator knows about the segments it defined.
type caseBuilder struct {
	c     *Case
	u     *Universe
	r     *Rng
	n     []int   // document count per segment
	docs  [][]Doc // abstract survivors per segment as input documents (for rebuild comparison)
	feats map[string]bool
}

func newCaseBuilder(id string, r *Rng) *caseBuilder {
	cb := &caseBuilder{c: &Case{ID: id}, r: r, feats: map[string]bool{}}
	cb.c.Norm = [3]uint64{uint64(r.Intn(1000)), uint64(r.Intn(50)), r.U64() % 0x7f7fffff}
	cb.u = genUniverse(r)
	return cb
}

func (cb *caseBuilder) addBuild(docs []Doc, mode uint32, api string) int {
	cb.c.Segs = append(cb.c.Segs, SegDef{Kind: "build", Mode: mode, API: api, Docs: docs})
	cb.n = append(cb.n, len(docs))
	cb.docs = append(cb.docs, docs)
	return len(cb.c.Segs) - 1
}

func (cb *caseBuilder) addLoad(src int, backing string) int {
	cb.c.Segs = append(cb.c.Segs, SegDef{Kind: "load", Src: src, Backing: backing})
	cb.n = append(cb.n, cb.n[src])
	cb.docs = append(cb.docs, cb.docs[src])
	return len(cb.c.Segs) - 1
}

func (cb *caseBuilder) addMerge(ins []MergeIn, mode uint32, api string, bufSize int) int {
	cb.c.Segs = append(cb.c.Segs, SegDef{Kind: "merge", Mode: mode, API: api, Ins: ins, BufSize: bufSize})
	total := 0
	var surv []Doc
	for _, in := range ins {
		dropped := map[uint32]bool{}
		for _, d := range in.Drops {
			dropped[d] = true
		}
		for i := 0; i < cb.n[in.Seg]; i++ {
			if !dropped[uint32(i)] {
				total++
				if cb.docs[in.Seg] != nil {
					surv = append(surv, cb.docs[in.Seg][i])
				}
			}
		}
	}
	cb.n = append(cb.n, total)
	cb.docs = append(cb.docs, surv)
	return len(cb.c.Segs) - 1
}

func (cb *caseBuilder) q(toks ...string) { cb.c.Queries = append(cb.c.Queries, Query(toks)) }

// genDrops picks a deletion bitmap over n documents: nil / empty / partial / everything.
func genDrops(r *Rng, n int) MergeIn {
	switch r.Intn(8) {
	case 0:
		return MergeIn{Nil: true}
	case 1:
		return MergeIn{Drops: []uint32{}}
	case 2:
		all := make([]uint32, n)
		for i := range all {
			all[i] = uint32(i)
		}
		return MergeIn{Drops: all}
	default:
		var d []uint32
		p := r.Range(1, 6)
		for i := 0; i < n; i++ {
			if r.Chance(p, 8) {
				d = append(d, uint32(i))
			}
		}
		if d == nil {
			d = []uint32{}
		}
		return MergeIn{Drops: d}
	}
}

func (cb *caseBuilder) queryFields() [][]byte {
	fs := append([][]byte{}, cb.u.fields...)
	fs = append(fs, []byte("nope"))
	return fs
}

func (cb *caseBuilder) queryTerms() [][]byte {
	ts := append([][]byte{}, cb.u.terms...)
	ts = append(ts, []byte("absent"))
	return ts
}

func itoa(i int) string { return fmt.Sprintf("%d", i) }

func hxList(bs [][]byte) string {
	if len(bs) == 0 {
		return "."
	}
	s := ""
	for i, b := range bs {
		if i > 0 {
			s += ","
		}
		s += hx(b)
	}
	return s
}

func intList(l []int) string {
	if len(l) == 0 {
		return "-"
	}
	s := ""
	for i, v := range l {
		if i > 0 {
			s += ","
		}
		s += itoa(v)
	}
	return s
}

// sampleDocs returns every document number for small segments and a boundary-biased
// sample for large ones.
func (cb *caseBuilder) sampleDocs(n, max int) []int {
	if n <= max {
		out := make([]int, n)
		for i := range out {
			out[i] = i
		}
		return out
	}
	set := map[int]bool{0: true, n - 1: true}
	for _, b := range []int{127, 128, 129, 255, 256, 257, 1023, 1024, 1025, 2047, 2048, 2049} {
		if b < n {
			set[b] = true
		}
	}
	for len(set) < max {
		set[cb.r.Intn(n)] = true
	}
	out := make([]int, 0, len(set))
	for k := range set {
		out = append(out, k)
	}
	sort.Ints(out)
	return out
}

// observeAll appends the full read-API script for segment s.
func (cb *caseBuilder) observeAll(s int) {
	ss := itoa(s)
	n := cb.n[s]
	cb.q("fields", ss)
	cb.q("count", ss)
	for _, f := range cb.queryFields() {
		cb.q("dict", ss, hx(f), "~", "~", "any")
		cb.q("stats", ss, hx(f))
		for _, t := range cb.queryTerms() {
			cb.q("iter", ss, hx(f), hx(t), "~", "111", "w")
			if cb.r.Chance(1, 3) {
				// what the flags leave out must not change what the ones kept deliver
				cb.q("iter", ss, hx(f), hx(t), "~", []string{"001", "010", "100", "011", "101"}[cb.r.Intn(5)], "w")
			}
			cb.q("contains", ss, hx(f), hx(t))
		}
	}
	docs := cb.sampleDocs(n, 80)
	for _, d := range docs {
		cb.q("stored", ss, itoa(d), "-1")
	}
	cb.q("stored", ss, itoa(n), "-1")
	cb.q("stored", ss, itoa(n+7), "-1")
	if n > 0 {
		cb.q("dv", ss, hxList(cb.queryFields()), intList(docs))
	}
}

// layoutQueries: the format-level dumps of segment s (compared with the byte-level Lean models)
func (cb *caseBuilder) layoutQueries(s int) {
	ss := itoa(s)
	cb.q("lfields", ss)
	cb.q("lstored", ss)
	for _, f := range cb.u.fields {
		cb.q("ldv", ss, hx(f))
		for _, t := range cb.queryTerms() {
			cb.q("lterm", ss, hx(f), hx(t))
		}
	}
}

func (u *Universe) hasField(f []byte) bool {
	for _, g := range u.fields {
		if string(g) == string(f) {
			return true
		}
	}
	return false
}
