package main

import (
	"bufio"
	"encoding/hex"
	"fmt"
	"io"
	"strconv"
	"strings"
)

// The case file is the single currency of the harness: the Go side (real ice code) and the
// Lean side (icemodel) both read it and print one transcript line per `q` line.

type Loc struct {
	Field           []byte
	Pos, Start, End int
}

type TermOcc struct {
	Term []byte
	Freq int
	Locs []Loc
}

type FieldInst struct {
	Name   []byte
	Length int
	Store  bool
	DV     bool
	Value  []byte
	Terms  []TermOcc
}

type Doc []FieldInst

type MergeIn struct {
	Seg   int
	Drops []uint32 // nil with NilDrops = nil bitmap
	Nil   bool
}

type SegDef struct {
	Kind    string // build | merge | load
	Mode    uint32
	API     string // pub | hook   (build and merge)
	Docs    []Doc
	Ins     []MergeIn
	BufSize int    // merge via pub: bufio size
	Src     int    // load
	Backing string // mem | file
}

type Query []string

// SamePair asks the harness to compare two real segments on every query of the case that
// targets A (metamorphic check; the Lean side ignores it).
type SamePair struct {
	A, B int
	Mode string // rebuild | assoc
}

type Case struct {
	ID      string
	Norm    [3]uint64
	Segs    []SegDef
	Queries []Query
	Sames   []SamePair
}

func hx(b []byte) string {
	if len(b) == 0 {
		return "-"
	}
	return hex.EncodeToString(b)
}

func unhx(s string) ([]byte, error) {
	if s == "-" {
		return []byte{}, nil
	}
	return hex.DecodeString(s)
}

func b2s(b bool) string {
	if b {
		return "1"
	}
	return "0"
}

func u32list(l []uint32) string {
	if len(l) == 0 {
		return "-"
	}
	var sb strings.Builder
	for i, v := range l {
		if i > 0 {
			sb.WriteByte(',')
		}
		sb.WriteString(strconv.FormatUint(uint64(v), 10))
	}
	return sb.String()
}

func (c *Case) Write(w io.Writer) {
	bw := bufio.NewWriter(w)
	defer bw.Flush()
	fmt.Fprintf(bw, "case %s\n", c.ID)
	fmt.Fprintf(bw, "norm %d %d %d\n", c.Norm[0], c.Norm[1], c.Norm[2])
	for _, s := range c.Segs {
		switch s.Kind {
		case "build":
			fmt.Fprintf(bw, "build %d %s\n", s.Mode, s.API)
			for _, d := range s.Docs {
				fmt.Fprintf(bw, "doc\n")
				for _, f := range d {
					fmt.Fprintf(bw, "fld %s %d %s %s %s\n", hx(f.Name), f.Length, b2s(f.Store), b2s(f.DV), hx(f.Value))
					for _, t := range f.Terms {
						fmt.Fprintf(bw, "trm %s %d\n", hx(t.Term), t.Freq)
						for _, l := range t.Locs {
							fmt.Fprintf(bw, "loc %s %d %d %d\n", hx(l.Field), l.Pos, l.Start, l.End)
						}
					}
				}
			}
			fmt.Fprintf(bw, "endbuild\n")
		case "merge":
			fmt.Fprintf(bw, "merge %d %s %d\n", s.Mode, s.API, s.BufSize)
			for _, in := range s.Ins {
				d := u32list(in.Drops)
				if in.Nil {
					d = "~"
				}
				fmt.Fprintf(bw, "in %d %s\n", in.Seg, d)
			}
			fmt.Fprintf(bw, "endmerge\n")
		case "load":
			fmt.Fprintf(bw, "load %d %s\n", s.Src, s.Backing)
		}
	}
	for _, q := range c.Queries {
		fmt.Fprintf(bw, "q %s\n", strings.Join(q, " "))
	}
	for _, sp := range c.Sames {
		fmt.Fprintf(bw, "same %d %d %s\n", sp.A, sp.B, sp.Mode)
	}
	fmt.Fprintf(bw, "endcase\n")
}

func (c *Case) String() string {
	var sb strings.Builder
	c.Write(&sb)
	return sb.String()
}

// ParseCases reads case files back (replay).
func ParseCases(r io.Reader) ([]*Case, error) {
	var out []*Case
	var cur *Case
	var seg *SegDef
	sc := bufio.NewScanner(r)
	sc.Buffer(make([]byte, 1<<20), 1<<28)
	ln := 0
	atoi := func(s string) int { v, _ := strconv.Atoi(s); return v }
	for sc.Scan() {
		ln++
		t := strings.Fields(sc.Text())
		if len(t) == 0 || strings.HasPrefix(t[0], "#") {
			continue
		}
		bad := func() error { return fmt.Errorf("line %d: bad line %q", ln, sc.Text()) }
		switch t[0] {
		case "case":
			cur = &Case{ID: t[1]}
		case "endcase":
			out = append(out, cur)
			cur = nil
		case "norm":
			for i := 0; i < 3; i++ {
				cur.Norm[i], _ = strconv.ParseUint(t[1+i], 10, 64)
			}
		case "build":
			m, _ := strconv.ParseUint(t[1], 10, 32)
			api := "hook"
			if len(t) > 2 {
				api = t[2]
			}
			seg = &SegDef{Kind: "build", Mode: uint32(m), API: api}
		case "doc":
			seg.Docs = append(seg.Docs, Doc{})
		case "fld":
			if len(t) != 6 {
				return nil, bad()
			}
			name, e1 := unhx(t[1])
			val, e2 := unhx(t[5])
			if e1 != nil || e2 != nil {
				return nil, bad()
			}
			d := &seg.Docs[len(seg.Docs)-1]
			*d = append(*d, FieldInst{Name: name, Length: atoi(t[2]), Store: t[3] == "1", DV: t[4] == "1", Value: val})
		case "trm":
			term, e1 := unhx(t[1])
			if e1 != nil {
				return nil, bad()
			}
			d := seg.Docs[len(seg.Docs)-1]
			f := &d[len(d)-1]
			f.Terms = append(f.Terms, TermOcc{Term: term, Freq: atoi(t[2])})
		case "loc":
			fld, e1 := unhx(t[1])
			if e1 != nil {
				return nil, bad()
			}
			d := seg.Docs[len(seg.Docs)-1]
			f := &d[len(d)-1]
			to := &f.Terms[len(f.Terms)-1]
			to.Locs = append(to.Locs, Loc{Field: fld, Pos: atoi(t[2]), Start: atoi(t[3]), End: atoi(t[4])})
		case "endbuild", "endmerge":
			cur.Segs = append(cur.Segs, *seg)
			seg = nil
		case "merge":
			m, _ := strconv.ParseUint(t[1], 10, 32)
			seg = &SegDef{Kind: "merge", Mode: uint32(m), API: t[2]}
			if len(t) > 3 {
				seg.BufSize = atoi(t[3])
			}
		case "in":
			in := MergeIn{Seg: atoi(t[1])}
			switch t[2] {
			case "~":
				in.Nil = true
			case "-":
				in.Drops = []uint32{}
			default:
				for _, x := range strings.Split(t[2], ",") {
					v, _ := strconv.ParseUint(x, 10, 32)
					in.Drops = append(in.Drops, uint32(v))
				}
			}
			seg.Ins = append(seg.Ins, in)
		case "load":
			cur.Segs = append(cur.Segs, SegDef{Kind: "load", Src: atoi(t[1]), Backing: t[2]})
		case "same":
			cur.Sames = append(cur.Sames, SamePair{A: atoi(t[1]), B: atoi(t[2]), Mode: t[3]})
		case "q":
			cur.Queries = append(cur.Queries, Query(t[1:]))
		default:
			return nil, bad()
		}
	}
	return out, sc.Err()
}
