package main

import "time"

// Delta debugging over a case: queries → segments' documents → field instances → terms →
// locations → script ops, keeping any reduction after which `bad` still holds.

func cloneCase(c *Case) *Case {
	n := &Case{ID: c.ID, Norm: c.Norm}
	for _, s := range c.Segs {
		ns := s
		ns.Docs = make([]Doc, len(s.Docs))
		for i, d := range s.Docs {
			nd := make(Doc, len(d))
			for j, f := range d {
				nf := f
				nf.Terms = make([]TermOcc, len(f.Terms))
				for k, t := range f.Terms {
					nt := t
					nt.Locs = append([]Loc(nil), t.Locs...)
					nf.Terms[k] = nt
				}
				nd[j] = nf
			}
			ns.Docs[i] = nd
		}
		ns.Ins = make([]MergeIn, len(s.Ins))
		for i, in := range s.Ins {
			ni := in
			if in.Drops != nil {
				ni.Drops = append([]uint32{}, in.Drops...)
			}
			ns.Ins[i] = ni
		}
		n.Segs = append(n.Segs, ns)
	}
	for _, q := range c.Queries {
		n.Queries = append(n.Queries, append(Query(nil), q...))
	}
	n.Sames = append([]SamePair(nil), c.Sames...)
	return n
}

func shrinkCase(c *Case, bad func(*Case) bool, budget int) *Case {
	cur := cloneCase(c)
	deadline := time.Now().Add(25 * time.Second)
	try := func(cand *Case) bool {
		if budget <= 0 || time.Now().After(deadline) {
			return false
		}
		budget--
		// keep the candidate inside the input contract (a location names a field of its batch)
		for i := range cand.Segs {
			if cand.Segs[i].Kind == "build" {
				fixLocs(cand.Segs[i].Docs)
			}
		}
		if bad(cand) {
			cur = cand
			return true
		}
		return false
	}
	// 1. queries: try each single query alone, then drop one at a time
	for i := range cur.Queries {
		cand := cloneCase(cur)
		cand.Queries = []Query{cur.Queries[i]}
		if try(cand) {
			break
		}
	}
	for i := len(cur.Queries) - 1; i >= 0 && len(cur.Queries) > 1; i-- {
		cand := cloneCase(cur)
		cand.Queries = append(cand.Queries[:i], cand.Queries[i+1:]...)
		try(cand)
	}
	changed := true
	for changed && budget > 0 {
		changed = false
		// 2. documents of leaf builds that no merge / load depends on by number: only
		//    remove the LAST document (keeps all other numbers and drops meaningful)
		for si := range cur.Segs {
			if cur.Segs[si].Kind != "build" {
				continue
			}
			for len(cur.Segs[si].Docs) > 0 {
				cand := cloneCase(cur)
				n := len(cand.Segs[si].Docs)
				cand.Segs[si].Docs = cand.Segs[si].Docs[:n-1]
				for mi := range cand.Segs {
					for ii := range cand.Segs[mi].Ins {
						in := &cand.Segs[mi].Ins[ii]
						if in.Seg == si && in.Drops != nil {
							var nd []uint32
							for _, d := range in.Drops {
								if int(d) < n-1 {
									nd = append(nd, d)
								}
							}
							if nd == nil {
								nd = []uint32{}
							}
							in.Drops = nd
						}
					}
				}
				if !try(cand) {
					break
				}
				changed = true
			}
			// empty out single documents (keeps numbering)
			for di := range cur.Segs[si].Docs {
				if len(cur.Segs[si].Docs[di]) == 0 {
					continue
				}
				cand := cloneCase(cur)
				cand.Segs[si].Docs[di] = Doc{}
				if try(cand) {
					changed = true
					continue
				}
				for fi := len(cur.Segs[si].Docs[di]) - 1; fi >= 0; fi-- {
					cand := cloneCase(cur)
					d := cand.Segs[si].Docs[di]
					cand.Segs[si].Docs[di] = append(d[:fi:fi], d[fi+1:]...)
					if try(cand) {
						changed = true
						continue
					}
					for ti := len(cur.Segs[si].Docs[di][fi].Terms) - 1; ti >= 0; ti-- {
						cand := cloneCase(cur)
						f := &cand.Segs[si].Docs[di][fi]
						f.Terms = append(f.Terms[:ti:ti], f.Terms[ti+1:]...)
						if try(cand) {
							changed = true
							continue
						}
						if len(cur.Segs[si].Docs[di][fi].Terms[ti].Locs) > 0 {
							cand := cloneCase(cur)
							cand.Segs[si].Docs[di][fi].Terms[ti].Locs = nil
							if try(cand) {
								changed = true
							}
						}
					}
				}
			}
		}
		// 3. drops
		for si := range cur.Segs {
			for ii := range cur.Segs[si].Ins {
				for k := len(cur.Segs[si].Ins[ii].Drops) - 1; k >= 0; k-- {
					cand := cloneCase(cur)
					d := cand.Segs[si].Ins[ii].Drops
					cand.Segs[si].Ins[ii].Drops = append(d[:k:k], d[k+1:]...)
					if try(cand) {
						changed = true
					}
				}
			}
		}
		// 4. script ops of iterator queries
		for qi := range cur.Queries {
			q := cur.Queries[qi]
			base := -1
			if q[0] == "iter" {
				base = 6
			} else if q[0] == "iterR" {
				base = 7
			}
			if base < 0 {
				continue
			}
			for k := len(cur.Queries[qi]) - 1; k >= base; k-- {
				if len(cur.Queries[qi]) <= base+1 {
					break
				}
				cand := cloneCase(cur)
				qq := cand.Queries[qi]
				cand.Queries[qi] = append(qq[:k:k], qq[k+1:]...)
				if try(cand) {
					changed = true
				}
			}
		}
	}
	return cur
}
