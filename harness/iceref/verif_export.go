//go:build verif
// +build verif

package iceref

// Exports for the verification machinery in /verif. This file only exists for
// the compiler under the build tag `verif`; it adds entry points and changes no
// behaviour of the package.

import (
	"fmt"
	"io"

	"github.com/RoaringBitmap/roaring"
	segment "github.com/blugelabs/bluge_segment_api"
)

// VerifNew is newWithChunkMode: the builder with an explicit chunk mode.
func VerifNew(results []segment.Document, normCalc func(string, int) float32,
	chunkMode uint32) (segment.Segment, uint64, error) {
	return newWithChunkMode(results, normCalc, chunkMode)
}

// VerifMerge is mergeSegmentBasesWriter: the merger with an explicit chunk mode,
// writing to w without the bufio layer of Merger.WriteTo.
func VerifMerge(segments []segment.Segment, drops []*roaring.Bitmap, w io.Writer,
	chunkMode uint32, closeCh chan struct{}) ([][]uint64, uint64, error) {
	segmentBases := make([]*Segment, len(segments))
	for i, seg := range segments {
		sb, ok := seg.(*Segment)
		if !ok {
			return nil, 0, fmt.Errorf("verif: unexpected segment type %T", seg)
		}
		segmentBases[i] = sb
	}
	return mergeSegmentBasesWriter(segmentBases, drops, w, chunkMode, closeCh)
}

// VerifPoolProbe reports whether the builder pool currently hands out an object
// that has been used before (evidence that a following build really reuses state).
func VerifPoolProbe() bool {
	s := interimPool.Get().(*interim)
	used := cap(s.Postings) > 0 || cap(s.DictKeys) > 0 || cap(s.IncludeDocValues) > 0 ||
		cap(s.freqNormsBacking) > 0 || s.builder != nil
	interimPool.Put(s)
	return used
}

// VerifPure evaluates one of the package's loop-free integer functions, so that the
// generated Lean rendering of the same function can be compared with the compiled code.
func VerifPure(name string, a []uint64) (out []uint64, err error) {
	b2u := func(b bool) uint64 {
		if b {
			return 1
		}
		return 0
	}
	switch name {
	case "getChunkSize":
		v, e := getChunkSize(uint32(a[0]), a[1], a[2])
		if e != nil {
			return nil, e
		}
		return []uint64{v}, nil
	case "encodeFreqHasLocs":
		return []uint64{encodeFreqHasLocs(a[0], a[1] != 0)}, nil
	case "decodeFreqHasLocs":
		f, h := decodeFreqHasLocs(a[0])
		return []uint64{uint64(f), b2u(h)}, nil
	case "fSTValEncode1Hit":
		return []uint64{fSTValEncode1Hit(a[0], a[1])}, nil
	case "fSTValDecode1Hit":
		d, n := fSTValDecode1Hit(a[0])
		return []uint64{d, n}, nil
	case "under32Bits":
		return []uint64{b2u(under32Bits(a[0]))}, nil
	case "numUvarintBytes":
		return []uint64{uint64(numUvarintBytes(a[0]))}, nil
	case "is1Hit":
		return []uint64{b2u(a[0]&fSTValEncodingMask == fSTValEncoding1Hit)}, nil
	}
	return nil, fmt.Errorf("verif: unknown function %q", name)
}
