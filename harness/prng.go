package main

// splitmix64: every random choice of the harness derives from one of these states.

func mix64(z uint64) uint64 {
	z += 0x9e3779b97f4a7c15
	z = (z ^ (z >> 30)) * 0xbf58476d1ce4e5b9
	z = (z ^ (z >> 27)) * 0x94d049bb133111eb
	return z ^ (z >> 31)
}

type Rng struct{ s uint64 }

func NewRng(seed uint64, stream string, idx uint64) *Rng {
	return &Rng{s: mix64(seed) ^ mix64(hashString(stream)) ^ mix64(idx*0x632be59bd9b4e019+1)}
}

func (r *Rng) U64() uint64 {
	r.s += 0x9e3779b97f4a7c15
	z := r.s
	z = (z ^ (z >> 30)) * 0xbf58476d1ce4e5b9
	z = (z ^ (z >> 27)) * 0x94d049bb133111eb
	return z ^ (z >> 31)
}

func (r *Rng) Intn(n int) int {
	if n <= 0 {
		return 0
	}
	return int(r.U64() % uint64(n))
}

func (r *Rng) Range(lo, hi int) int     { return lo + r.Intn(hi-lo+1) } // inclusive
func (r *Rng) Chance(num, den int) bool { return r.Intn(den) < num }

func hashString(s string) uint64 {
	var h uint64 = 1469598103934665603
	for i := 0; i < len(s); i++ {
		h ^= uint64(s[i])
		h *= 1099511628211
	}
	return h
}
