package main

import (
	"fmt"
	"os"
	"path/filepath"
	"sort"
	"strings"

	segment "github.com/blugelabs/bluge_segment_api"
	ice "github.com/blugelabs/ice/v2"
)

func init() {
	props["C10"] = &propDef{extra: legC10, rule: "every generated case (builds under all chunk modes, merge plans) is written by the current code and read by the frozen reference (/verif/harness/iceref), and written by the reference and read by the current code; both transcripts must equal the Lean Spec; plus the committed golden corpus of reference-written files (ref/golden) loaded by the current code; non-trivial = case has documents"}
}

func runCaseX(c *Case, wr, rd *iceAPI) []string {
	w := BuildWorldX(c, wr, rd)
	defer w.Close()
	out := make([]string, len(c.Queries))
	for i, q := range c.Queries {
		out[i] = fmt.Sprintf("r %s %d %s", c.ID, i, w.Exec(q, nil))
	}
	return out
}

func genC10(tier string, seed uint64) []genOut {
	s := tierSizes(tier, sizes{120, 3, 1}, sizes{2500, 30, 6})
	var out []genOut
	for i := 0; i < s.tiny+s.block+s.chunk; i++ {
		class := classOf(i, s)
		r := NewRng(seed, "C10", uint64(i))
		cb := newCaseBuilder(caseID("C10", seed, i), r)
		if class == "chunk" && len(cb.u.terms) > 4 {
			cb.u.terms = cb.u.terms[:3]
		}
		var sg int
		if r.Chance(1, 2) {
			docs, m, api := cb.genLeaf(class, "d")
			sg = cb.addBuild(docs, m, api)
		} else {
			sg, _ = cb.genMergePlan(class, false)
		}
		cb.observeAll(sg)
		cb.q("crc", itoa(sg))
		if class != "chunk" {
			cb.layoutQueries(sg)
		}
		out = append(out, genOut{cb.c, cb.n[sg] > 0, class})
	}
	return out
}

func goldenDir(e *Engine) string { return filepath.Join(e.outDir, "ref", "golden") }

func legC10(e *Engine) []Violation {
	gos := genC10(e.tier, e.seed)
	cases := make([]*Case, len(gos))
	for i, g := range gos {
		cases[i] = g.c
		e.noteCase(g.c, g.nontrivial)
		e.count("class:"+g.class, 1)
	}
	var vs []Violation
	spec, err := e.runModel("spec", cases)
	if err != nil {
		return []Violation{{Prop: e.prop, Kind: "framework", Detail: err.Error()}}
	}
	for _, dir := range []struct {
		name   string
		wr, rd *iceAPI
	}{{"current-writer->reference-reader", curAPI, refAPI}, {"reference-writer->current-reader", refAPI, curAPI}} {
		impl := make([][]string, len(cases))
		parallel(len(cases), func(i int) { impl[i] = runCaseX(cases[i], dir.wr, dir.rd) })
		nshr := 0
		for i, c := range cases {
			e.rep.Queries += len(impl[i])
			if d := firstDiff(impl[i], spec[c.ID]); d >= 0 {
				v := Violation{Prop: e.prop, CaseID: c.ID, Kind: "spec-mismatch", Case: c, QueryIx: d}
				run := func(x *Case) []string { return runCaseX(x, dir.wr, dir.rd) }
				if nshr < 2 {
					nshr++
					v.Case = shrinkCase(c, func(x *Case) bool { b, _ := e.mismatches(x, run); return b }, 300)
				}
				_, det := e.mismatches(v.Case, run)
				v.Detail = dir.name + ": " + det
				v.Extra = "# direction: " + dir.name + "\n"
				vs = append(vs, v)
			}
		}
		e.count("dir:"+dir.name, len(cases))
	}
	vs = append(vs, pureCorrespondence(e)...)
	vs = append(vs, bigChunks(e)...)
	vs = append(vs, goldenPass(e, nil)...)
	return vs
}

// cmdGolden writes the golden corpus with the REFERENCE writer.
func cmdGolden(args []string) int {
	out := "/verif/ref/golden"
	if len(args) > 0 {
		out = args[0]
	}
	_ = os.MkdirAll(out, 0o755)
	n := 0
	for _, g := range genC10("quick", 424242) {
		c := g.c
		if !g.nontrivial || n >= 24 || (g.class != "tiny" && n%8 != 7) {
			if !(g.class == "block" && n < 24) {
				continue
			}
		}
		// queries only on the last segment, no docnums (needs the merge itself)
		last := len(c.Segs) - 1
		var qs []Query
		for _, q := range c.Queries {
			if q[1] == itoa(last) && q[0] != "docnums" && q[0] != "mergen" {
				qs = append(qs, q)
			}
		}
		c.Queries = qs
		c.ID = fmt.Sprintf("golden-%02d", n)
		w := BuildWorldX(c, refAPI, refAPI)
		if w.segs[last].err != "" {
			w.Close()
			continue
		}
		img, _, err := persist(w.segs[last].seg)
		w.Close()
		if err != nil {
			continue
		}
		base := filepath.Join(out, c.ID)
		_ = os.WriteFile(base+".ice", img, 0o644)
		_ = os.WriteFile(base+".case", []byte(c.String()), 0o644)
		n++
	}
	fmt.Printf("golden: wrote %d files to %s\n", n, out)
	return 0
}

// pureCorrespondence: the format-defining integer functions as compiled from /repo (through the
// verif hook VerifPure) against the Lean definitions the bridges prove equal to their generated
// renderings - i.e. a validation of the translator's output on concrete arguments.
func pureCorrespondence(e *Engine) []Violation {
	r := NewRng(e.seed, "C10-pure", 0)
	edges := []uint64{0, 1, 2, 127, 128, 129, 1023, 1024, 1025, 2047, 2048, 16383, 16384, 1<<31 - 1, 1 << 31, 1<<31 + 1,
		1<<32 - 1, 1 << 32, 1<<62 - 1, 1 << 62, 1<<63 - 1, 1 << 63, 1<<63 + 5, 1<<64 - 1}
	pick := func() uint64 {
		if r.Chance(1, 2) {
			return edges[r.Intn(len(edges))]
		}
		return r.U64() >> uint(r.Intn(64))
	}
	n := 3000
	if e.tier == "thorough" {
		n = 60000
	}
	c := &Case{ID: caseID("C10pure", e.seed, 0)}
	var want []string
	fns := []struct {
		name string
		ar   int
	}{{"getChunkSize", 3}, {"encodeFreqHasLocs", 2}, {"decodeFreqHasLocs", 1}, {"fSTValEncode1Hit", 2},
		{"fSTValDecode1Hit", 1}, {"under32Bits", 1}, {"numUvarintBytes", 1}, {"is1Hit", 1}}
	for i := 0; i < n; i++ {
		f := fns[r.Intn(len(fns))]
		args := make([]uint64, f.ar)
		for j := range args {
			args[j] = pick()
		}
		switch f.name {
		case "getChunkSize":
			args[0] = []uint64{1, 2, 5, 64, 1024, 1025, 1026, 0, 4000}[r.Intn(9)]
			if args[0] == 1025 && args[1] >= 1<<63 {
				args[1] >>= 2
			}
		case "encodeFreqHasLocs":
			args[1] %= 2
		}
		q := Query{"pure", f.name}
		for _, a := range args {
			q = append(q, fmt.Sprint(a))
		}
		out, err := ice.VerifPure(f.name, args)
		res := "err"
		if err == nil {
			var ss []string
			for _, v := range out {
				ss = append(ss, fmt.Sprint(v))
			}
			res = strings.Join(ss, " ")
		}
		c.Queries = append(c.Queries, q)
		want = append(want, fmt.Sprintf("r %s %d %s", c.ID, i, res))
	}
	got, err := e.runModel("spec", []*Case{c})
	if err != nil {
		return []Violation{{Prop: e.prop, Kind: "framework", Detail: err.Error()}}
	}
	e.count("pure-function-evaluations", n)
	if d := firstDiff(want, got[c.ID]); d >= 0 {
		var y string
		if d < len(got[c.ID]) {
			y = got[c.ID][d]
		}
		cc := &Case{ID: c.ID, Queries: []Query{c.Queries[d]}}
		return []Violation{{Prop: e.prop, CaseID: c.ID, Kind: "spec-mismatch", Case: cc,
			Detail: fmt.Sprintf("format-defining function `%s`: the compiled Go function and the pinned definition disagree\n  go:     %s\n  pinned: %s", strings.Join(c.Queries[d], " "), want[d], y)}}
	}
	return nil
}

// bigChunks: compressed chunks of more than 1 MiB (a stored block holding one 1.5 MiB value, a
// doc-value chunk of 300 documents with 4000-byte terms).  The zstd frames of such chunks declare
// large windows; a reader with a decoder limit, or a writer with other frame parameters, still
// round-trips its own files.  The reference reading its own file is the oracle; the case is too
// large for the line protocol of the Lean driver and is compared across implementations only.
func bigChunks(e *Engine) []Violation {
	r := NewRng(e.seed, "C10-big", 0)
	cb := newCaseBuilder(caseID("C10big", e.seed, 0), r)
	cb.u.fields = [][]byte{[]byte("_id"), []byte("big"), []byte("tag")}
	mkBig := func(n int) []byte {
		// compressible but not trivial: words from a small vocabulary
		b := make([]byte, 0, n+16)
		for len(b) < n {
			w := []string{"alpha ", "beta ", "gamma-", "delta\n", "epsilon "}[r.Intn(5)]
			b = append(b, w...)
			if r.Chance(1, 9) {
				b = append(b, byte(r.Intn(256)))
			}
		}
		return b[:n]
	}
	docs := make([]Doc, 300)
	for d := range docs {
		id := []byte(fmt.Sprintf("d%d", d))
		term := mkBig(4000)
		for i := range term {
			if term[i] == 0xff {
				term[i] = 'x'
			}
		}
		docs[d] = Doc{
			{Name: []byte("_id"), Length: 1, Store: true, Value: id, Terms: []TermOcc{{Term: id, Freq: 1}}},
			{Name: []byte("tag"), Length: 1, DV: true, Terms: []TermOcc{{Term: term, Freq: 1}}},
		}
	}
	docs[1] = append(docs[1], FieldInst{Name: []byte("big"), Store: true, Value: mkBig(1536 << 10)})
	sg := cb.addBuild(docs, 1024, "hook")
	mg := cb.addMerge([]MergeIn{{Seg: sg, Nil: true}}, 1024, "hook", 4096)
	for _, s := range []int{sg, mg} {
		for _, d := range []int{0, 1, 127, 128, 299} {
			cb.q("stored", itoa(s), itoa(d), "-1")
		}
		cb.q("dv", itoa(s), hx([]byte("tag")), intList([]int{0, 1, 150, 299, 2}))
		cb.q("count", itoa(s))
	}
	oracle := runCaseX(cb.c, refAPI, refAPI)
	var vs []Violation
	for _, dir := range []struct {
		name   string
		wr, rd *iceAPI
	}{{"current-writer->reference-reader", curAPI, refAPI}, {"reference-writer->current-reader", refAPI, curAPI}, {"current-writer->current-reader", curAPI, curAPI}} {
		got := runCaseX(cb.c, dir.wr, dir.rd)
		e.count("big-chunk-transcripts", 1)
		if d := firstDiff(oracle, got); d >= 0 {
			short := func(s string) string {
				if len(s) > 300 {
					return s[:300] + "..."
				}
				return s
			}
			qc := &Case{ID: cb.c.ID, Queries: []Query{{"(big-chunk case: 300 documents, 4000-byte doc-value terms, one 1.5 MiB stored value; regenerate with seed)"}, cb.c.Queries[d]}}
			vs = append(vs, Violation{Prop: e.prop, CaseID: cb.c.ID, Kind: "spec-mismatch", Case: qc,
				Detail: fmt.Sprintf("%s, chunks above 1 MiB: `%s`\n  reference->reference: %s\n  this direction:       %s", dir.name, strings.Join(cb.c.Queries[d], " "), short(oracle[d]), short(got[d]))})
		}
	}
	return vs
}

// goldenPass: the committed corpus of reference-written files (ref/golden) loaded by the current
// code; the queries of each case (all of them, or those `keep` selects) must answer as the Lean
// specification of the case.
func goldenPass(e *Engine, keep func(Query) bool) []Violation {
	var vs []Violation
	// golden corpus
	files, _ := filepath.Glob(filepath.Join(goldenDir(e), "*.case"))
	sort.Strings(files)
	for _, cf := range files {
		f, err := os.Open(cf)
		if err != nil {
			continue
		}
		cs, err := ParseCases(f)
		f.Close()
		if err != nil || len(cs) != 1 {
			vs = append(vs, Violation{Prop: e.prop, Kind: "framework", Detail: "golden case unreadable: " + cf})
			continue
		}
		c := cs[0]
		if keep != nil {
			var qs []Query
			for _, q := range c.Queries {
				if keep(q) {
					qs = append(qs, q)
				}
			}
			c.Queries = qs
		}
		img, err := os.ReadFile(strings.TrimSuffix(cf, ".case") + ".ice")
		if err != nil {
			vs = append(vs, Violation{Prop: e.prop, Kind: "framework", Detail: "golden file missing for " + cf})
			continue
		}
		last := len(c.Segs) - 1
		w := &World{c: c, segs: make([]*RSeg, len(c.Segs))}
		for j := range w.segs {
			w.segs[j] = &RSeg{err: "not-in-golden"}
		}
		rs := &RSeg{isMerge: c.Segs[last].Kind == "merge", wroteOK: true}
		rs.err = guard(opTimeout, func() string {
			s, err := curAPI.Load(segment.NewDataBytes(img))
			if err != nil {
				return "loaderr"
			}
			rs.seg, rs.obs = s, s
			return ""
		})
		w.segs[last] = rs
		var lines []string
		for i, q := range c.Queries {
			lines = append(lines, fmt.Sprintf("r %s %d %s", c.ID, i, w.Exec(q, nil)))
		}
		sp, err := e.runModel("spec", []*Case{c})
		if err != nil {
			continue
		}
		e.rep.Queries += len(lines)
		e.count("golden-files", 1)
		if d := firstDiff(lines, sp[c.ID]); d >= 0 {
			vs = append(vs, Violation{Prop: e.prop, CaseID: c.ID, Kind: "spec-mismatch", Case: c,
				Detail: fmt.Sprintf("golden file %s (written by the reference) read by the current code: query %d `%s`\n  impl: %s\n  spec: %s",
					filepath.Base(cf), d, queryAt(c, d), lines[d], sp[c.ID][d]),
				Extra: "# golden: " + strings.TrimSuffix(cf, ".case") + ".ice\n"})
		}
	}
	return vs
}
