package main

import (
	"fmt"
	"os"
	"path/filepath"
	"sort"
	"strings"

	segment "github.com/blugelabs/bluge_segment_api"
)

func init() {
	props["C10"] = &propDef{extra: legC10, rule: "every generated case (builds under all chunk modes, merge plans) is written by the current code and read by the frozen reference (/verif/harness/iceref), and written by the reference and read by the current code; both transcripts must equal the Lean Spec; plus the committed golden corpus of reference-written files (ref/golden) loaded by the current code; non-trivial = case has documents"}
}

func runCaseX(c *Case, wr, rd *iceAPI) []string {
	w := BuildWorldX(c, wr, rd)
	defer w.Close()
	out := make([]string, len(c.Queries))
	for i, q := range c.Queries {
		out[i] = fmt.Sprintf("r %s %d %s", c.ID, i, w.Exec(q, nil))
	}
	return out
}

func genC10(tier string, seed uint64) []genOut {
	s := tierSizes(tier, sizes{120, 3, 1}, sizes{2500, 30, 6})
	var out []genOut
	for i := 0; i < s.tiny+s.block+s.chunk; i++ {
		class := classOf(i, s)
		r := NewRng(seed, "C10", uint64(i))
		cb := newCaseBuilder(caseID("C10", seed, i), r)
		if class == "chunk" && len(cb.u.terms) > 4 {
			cb.u.terms = cb.u.terms[:3]
		}
		var sg int
		if r.Chance(1, 2) {
			docs, m, api := cb.genLeaf(class, "d")
			sg = cb.addBuild(docs, m, api)
		} else {
			sg, _ = cb.genMergePlan(class, false)
		}
		cb.observeAll(sg)
		cb.q("crc", itoa(sg))
		if class != "chunk" {
			cb.layoutQueries(sg)
		}
		out = append(out, genOut{cb.c, cb.n[sg] > 0, class})
	}
	return out
}

func goldenDir(e *Engine) string { return filepath.Join(e.outDir, "ref", "golden") }

func legC10(e *Engine) []Violation {
	gos := genC10(e.tier, e.seed)
	cases := make([]*Case, len(gos))
	for i, g := range gos {
		cases[i] = g.c
		e.noteCase(g.c, g.nontrivial)
		e.count("class:"+g.class, 1)
	}
	var vs []Violation
	spec, err := e.runModel("spec", cases)
	if err != nil {
		return []Violation{{Prop: e.prop, Kind: "framework", Detail: err.Error()}}
	}
	for _, dir := range []struct {
		name   string
		wr, rd *iceAPI
	}{{"current-writer->reference-reader", curAPI, refAPI}, {"reference-writer->current-reader", refAPI, curAPI}} {
		impl := make([][]string, len(cases))
		parallel(len(cases), func(i int) { impl[i] = runCaseX(cases[i], dir.wr, dir.rd) })
		nshr := 0
		for i, c := range cases {
			e.rep.Queries += len(impl[i])
			if d := firstDiff(impl[i], spec[c.ID]); d >= 0 {
				v := Violation{Prop: e.prop, CaseID: c.ID, Kind: "spec-mismatch", Case: c, QueryIx: d}
				run := func(x *Case) []string { return runCaseX(x, dir.wr, dir.rd) }
				if nshr < 2 {
					nshr++
					v.Case = shrinkCase(c, func(x *Case) bool { b, _ := e.mismatches(x, run); return b }, 300)
				}
				_, det := e.mismatches(v.Case, run)
				v.Detail = dir.name + ": " + det
				v.Extra = "# direction: " + dir.name + "\n"
				vs = append(vs, v)
			}
		}
		e.count("dir:"+dir.name, len(cases))
	}
	// golden corpus
	files, _ := filepath.Glob(filepath.Join(goldenDir(e), "*.case"))
	sort.Strings(files)
	for _, cf := range files {
		f, err := os.Open(cf)
		if err != nil {
			continue
		}
		cs, err := ParseCases(f)
		f.Close()
		if err != nil || len(cs) != 1 {
			vs = append(vs, Violation{Prop: e.prop, Kind: "framework", Detail: "golden case unreadable: " + cf})
			continue
		}
		c := cs[0]
		img, err := os.ReadFile(strings.TrimSuffix(cf, ".case") + ".ice")
		if err != nil {
			vs = append(vs, Violation{Prop: e.prop, Kind: "framework", Detail: "golden file missing for " + cf})
			continue
		}
		last := len(c.Segs) - 1
		w := &World{c: c, segs: make([]*RSeg, len(c.Segs))}
		for j := range w.segs {
			w.segs[j] = &RSeg{err: "not-in-golden"}
		}
		rs := &RSeg{isMerge: c.Segs[last].Kind == "merge", wroteOK: true}
		rs.err = guard(opTimeout, func() string {
			s, err := curAPI.Load(segment.NewDataBytes(img))
			if err != nil {
				return "loaderr"
			}
			rs.seg, rs.obs = s, s
			return ""
		})
		w.segs[last] = rs
		var lines []string
		for i, q := range c.Queries {
			lines = append(lines, fmt.Sprintf("r %s %d %s", c.ID, i, w.Exec(q, nil)))
		}
		sp, err := e.runModel("spec", []*Case{c})
		if err != nil {
			continue
		}
		e.rep.Queries += len(lines)
		e.count("golden-files", 1)
		if d := firstDiff(lines, sp[c.ID]); d >= 0 {
			vs = append(vs, Violation{Prop: e.prop, CaseID: c.ID, Kind: "spec-mismatch", Case: c,
				Detail: fmt.Sprintf("golden file %s (written by the reference) read by the current code: query %d `%s`\n  impl: %s\n  spec: %s",
					filepath.Base(cf), d, queryAt(c, d), lines[d], sp[c.ID][d]),
				Extra: "# golden: " + strings.TrimSuffix(cf, ".case") + ".ice\n"})
		}
	}
	return vs
}

// cmdGolden writes the golden corpus with the REFERENCE writer.
func cmdGolden(args []string) int {
	out := "/verif/ref/golden"
	if len(args) > 0 {
		out = args[0]
	}
	_ = os.MkdirAll(out, 0o755)
	n := 0
	for _, g := range genC10("quick", 424242) {
		c := g.c
		if !g.nontrivial || n >= 24 || (g.class != "tiny" && n%8 != 7) {
			if !(g.class == "block" && n < 24) {
				continue
			}
		}
		// queries only on the last segment, no docnums (needs the merge itself)
		last := len(c.Segs) - 1
		var qs []Query
		for _, q := range c.Queries {
			if q[1] == itoa(last) && q[0] != "docnums" && q[0] != "mergen" {
				qs = append(qs, q)
			}
		}
		c.Queries = qs
		c.ID = fmt.Sprintf("golden-%02d", n)
		w := BuildWorldX(c, refAPI, refAPI)
		if w.segs[last].err != "" {
			w.Close()
			continue
		}
		img, _, err := persist(w.segs[last].seg)
		w.Close()
		if err != nil {
			continue
		}
		base := filepath.Join(out, c.ID)
		_ = os.WriteFile(base+".ice", img, 0o644)
		_ = os.WriteFile(base+".case", []byte(c.String()), 0o644)
		n++
	}
	fmt.Printf("golden: wrote %d files to %s\n", n, out)
	return 0
}
