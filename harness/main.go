package main

import (
	"crypto/sha256"
	"flag"
	"fmt"
	"os"
	"strconv"
	"strings"
	"time"
)

type propDef struct {
	gen       func(tier string, seed uint64) []genOut
	reuse     bool
	alsoReuse bool // run the cases a second time with objects handed back as prealloc
	rule      string
	extra     func(e *Engine) []Violation // harness-only legs
}

var props = map[string]*propDef{}

// properties whose subject includes producing the segment itself
// (for C08, C13, C16, C18 a segment that cannot be produced at all is not their subject: the
// case is skipped there; every other property's statement covers merged / loaded segments)
var constructionProps = map[string]bool{"C01": true, "C02": true, "C03": true, "C04": true, "C05": true, "C06": true, "C07": true,
	"C09": true, "C10": true, "C11": true, "C15": true, "C17": true}

// properties whose cases are also answered by the executable Lean model of the code
var modelProps = map[string]bool{"C05": true, "C13": true, "C06": true, "C07": true, "C08": true, "C18": true}

func init() {
	props["C01"] = &propDef{gen: genC01, rule: "random valid batches (tiny 0-14 docs under fixed chunk sizes 1-5/1024/1025, block 129-400, chunk 1025-2600), full read-API script vs Lean Spec.build; non-trivial = batch has a repeated field name in a document, a composite location, or a multi-chunk term; distinct by case-body hash"}
	props["C02"] = &propDef{gen: genC02, rule: "random merge plans (1-4 leaves with differing field sets / chunk modes, optional inner merge, drops nil/empty/partial/all) vs Lean Spec.merge, plus real-vs-real comparison with the survivors rebuilt; non-trivial = >1 input segment and >0 survivors"}
	props["C03"] = &propDef{gen: genC03, rule: "merge plans as C02; DocumentNumbers(), Count() and every survivor's content vs Lean Spec.merge; non-trivial = some non-empty deletion bitmap"}
	props["C04"] = &propDef{gen: genC04, rule: "built / merged segments persisted and loaded memory-backed, file-backed and re-loaded; full read script on each vs Lean Spec; non-trivial = segment has documents"}
	props["C05"] = &propDef{gen: genC05, alsoReuse: true, rule: "iterator scripts (Next/Advance with non-decreasing targets/walk, 8 flag combinations, exclusion nil/empty/partial/all, ReplaceActual) on built (fixed chunk sizes 1-5) and merged (1-hit) segments vs Lean Spec.iterRun; non-trivial = script has an Advance, a non-empty exclusion and a multi-chunk term"}
	props["C06"] = &propDef{gen: genC06, extra: legC06big, rule: "stored-field visits in random orders with early stop on built/loaded/merged segments incl. >128 documents, plus a sweep of the size of block 1 across the reused decompression buffer's capacity; non-trivial = more than one 128-document block"}
	props["C07"] = &propDef{gen: genC07, rule: "doc-value readers on random field subsets/orders, visiting forwards, backwards, randomly and ping-pong across 1024-document chunk edges; non-trivial = more than one doc-value chunk, or a small merged/built case with documents"}
	props["C08"] = &propDef{gen: genC08, alsoReuse: true, rule: "dictionary iterators with nil/non-empty [start,end) bounds and any/prefix automata, Contains and PostingsList on built and merged (1-hit mixed) segments, unknown fields and terms; non-trivial = merged segment with >1 document"}
	props["C11"] = &propDef{gen: genC11, extra: legC11, rule: "CRC-32 of all bytes but the last four, footer fields vs loaded segment, returned byte count, byte-identical re-persist; built, merged, loaded (mem, file); plus: WriteTo of the same segment object into a healthy writer after a WriteTo that failed part-way reproduces the reference file"}
	props["C13"] = &propDef{gen: genC13, reuse: true, rule: "lookup sequences over three segments (general and 1-hit encodings) where each lookup receives an earlier PostingsList / PostingsIterator as prealloc (none / most recent / random earlier) and dictionaries and doc-value readers are kept across lookups; transcript vs Lean Spec (= fresh objects)"}
	props["C16"] = &propDef{gen: genC16, extra: func(e *Engine) []Violation {
		// statistics of the reference-written golden files, read by the current code
		return goldenPass(e, func(q Query) bool { return q[0] == "stats" || q[0] == "count" })
	}, rule: "CollectionStats of every known, unknown and empty field name on built, merged, loaded segments with Length = Σ freq; vs Lean Spec.stats; non-trivial = merged with survivors"}
	props["C17"] = &propDef{gen: genC17, rule: "2-4 leaves with drops: flat merge vs every prefix grouping (drops in the inner merge, or translated through its document numbers), suffix grouping, single-segment identity; real-vs-real on the full read script incl. statistics, and each vs Lean Spec; non-trivial = >=3 leaves with survivors"}
	props["C18"] = &propDef{gen: genC18, alsoReuse: true, rule: "DocsMatchingTerms on lists of 0-12 (field, term) pairs mixing known, unknown and empty field names, repeats and field switches; built, loaded, merged; non-trivial = list contains an unknown/empty field and the segment has documents"}
}

func main() {
	if len(os.Args) < 2 {
		fmt.Fprintln(os.Stderr, "usage: icecheck check|replay|gen ...")
		os.Exit(2)
	}
	switch os.Args[1] {
	case "check":
		os.Exit(cmdCheck(os.Args[2:]))
	case "replay":
		os.Exit(cmdReplay(os.Args[2:]))
	case "gen":
		os.Exit(cmdGen(os.Args[2:]))
	case "run":
		os.Exit(cmdRun(os.Args[2:]))
	case "golden":
		os.Exit(cmdGolden(os.Args[2:]))
	case "buildhash":
		os.Exit(cmdBuildHash(os.Args[2:]))
	}
	fmt.Fprintln(os.Stderr, "unknown command")
	os.Exit(2)
}

func newEngine(prop, tier string, seed uint64, model, out string) *Engine {
	return &Engine{prop: prop, tier: tier, seed: seed, modelBin: model, outDir: out,
		hashes: map[[32]byte]bool{},
		rep:    &Report{Prop: prop, Tier: tier, Seed: seed, Distribution: map[string]int{}, Extra: map[string]string{}}}
}

func cmdCheck(args []string) int {
	fs := flag.NewFlagSet("check", flag.ExitOnError)
	prop := fs.String("prop", "", "property id")
	tier := fs.String("tier", "quick", "quick|thorough")
	seed := fs.Uint64("seed", 1, "seed")
	model := fs.String("model", "/verif/lean/.lake/build/bin/icemodel", "Lean driver")
	out := fs.String("out", "/verif", "output root")
	_ = fs.Parse(args)
	pd := props[*prop]
	if pd == nil {
		fmt.Fprintf(os.Stderr, "no harness leg for %s\n", *prop)
		return 2
	}
	start := time.Now()
	e := newEngine(*prop, *tier, *seed, *model, *out)
	e.rep.Rule = pd.rule
	var vs []Violation
	// the thorough tier repeats the whole leg with further seeds (VERIF_ROUNDS, default 6): memory
	// stays bounded by one round, the exploration grows with the rounds
	rounds := 1
	if *tier == "thorough" {
		rounds = 6
		if *prop == "C12" {
			rounds = 2 // exhaustive sweeps over every write offset: each round takes minutes
		}
		if v, err := strconv.Atoi(os.Getenv("VERIF_ROUNDS")); err == nil && v > 0 {
			rounds = v
		}
	}
	for round := 0; round < rounds && len(vs) == 0; round++ {
		rseed := *seed + uint64(round)*1000003
		e.seed = rseed
		e.count("rounds", 1)
		vs = append(vs, checkRound(e, pd, *tier, rseed)...)
	}
	e.seed = *seed
	return e.finish(vs, start)
}

func checkRound(e *Engine, pd *propDef, tierV string, seedV uint64) []Violation {
	tier, seed := &tierV, &seedV
	var vs []Violation
	if pd.gen != nil {
		gos := pd.gen(*tier, *seed)
		cases := make([]*Case, len(gos))
		for i, g := range gos {
			cases[i] = g.c
			e.noteCase(g.c, g.nontrivial)
			e.count("class:"+g.class, 1)
			for _, s := range g.c.Segs {
				e.count("seg:"+s.Kind, 1)
				if s.Kind != "load" {
					e.count(fmt.Sprintf("mode:%d/%s", s.Mode, s.API), 1)
				}
			}
			for _, q := range g.c.Queries {
				e.count("q:"+q[0], 1)
			}
		}
		vs = append(vs, e.runSpecDiff(cases, pd.reuse)...)
		if pd.alsoReuse && len(vs) == 0 {
			vs = append(vs, e.runSpecDiff(cases, true)...)
			e.count("second-pass-with-reused-objects", len(cases))
		}
	}
	if pd.extra != nil {
		vs = append(vs, pd.extra(e)...)
	}
	return vs
}

// runSpecDiff: implementation vs specification, `same` pairs, then shrinking of failures.
func (e *Engine) runSpecDiff(cases []*Case, reuse bool) []Violation {
	outs := make([]*RunOut, len(cases))
	run := func(c *Case) []string { return RunCase(c, reuse).Lines }
	parallel(len(cases), func(i int) { outs[i] = RunCase(cases[i], reuse) })
	spec, err := e.runModel("spec", cases)
	if err != nil {
		return []Violation{{Prop: e.prop, Kind: "framework", Detail: err.Error()}}
	}
	if bad := spec["?"]; len(bad) > 0 {
		return []Violation{{Prop: e.prop, Kind: "framework", Detail: "icemodel rejected input: " + bad[0]}}
	}
	var vs []Violation
	shrunk := 0
	// correspondence of the executable MODEL with the implementation (DESIGN.md 2.5 item 2)
	var model map[string][]string
	if modelProps[e.prop] {
		model, err = e.runModel("model", cases)
		if err != nil {
			return []Violation{{Prop: e.prop, Kind: "framework", Detail: err.Error()}}
		}
	}
	for i, c := range cases {
		e.rep.Queries += len(outs[i].Lines)
		if model != nil {
			if d := firstDiff(outs[i].Lines, model[c.ID]); d >= 0 && firstDiff(outs[i].Lines, spec[c.ID]) < 0 {
				var x, y string
				if d < len(outs[i].Lines) {
					x = outs[i].Lines[d]
				}
				if d < len(model[c.ID]) {
					y = model[c.ID][d]
				}
				msg := fmt.Sprintf("the Lean MODEL of the code disagrees with the implementation (which agrees with the specification): query %d `%s`\n  impl:  %s\n  model: %s", d, queryAt(c, d), x, y)
				e.rep.ModelDisagree = append(e.rep.ModelDisagree, msg)
				if len(e.rep.ModelDisagree) <= 2 {
					vs = append(vs, Violation{Prop: e.prop, CaseID: c.ID, Kind: "obligation", Case: c, Detail: msg})
				}
			} else {
				e.rep.ModelAgree += len(outs[i].Lines)
			}
		}
		if outs[i].Reuse != nil {
			e.count("reused:postingslist", outs[i].Reuse.reusedPL)
			e.count("reused:iterator", outs[i].Reuse.reusedPI)
			e.count("reused:dictionary", outs[i].Reuse.reusedDict)
			e.count("reused:dvreader", outs[i].Reuse.reusedDVR)
		}
		for _, l := range outs[i].Lines {
			if strings.Contains(l, " panic") {
				e.count("answer:panic", 1)
			} else if strings.HasSuffix(l, " err") {
				e.count("answer:err", 1)
			}
		}
		if d := firstDiff(outs[i].Lines, spec[c.ID]); d >= 0 {
			if !constructionProps[e.prop] && d < len(outs[i].Lines) && strings.Contains(outs[i].Lines[d], " segerr:") {
				// a segment of the case could not be built / merged / loaded at all: that is the
				// subject of C01-C04 (and C10, C11, C17), not of this property; nothing can be
				// observed here, so the case is skipped, not reported
				e.count("skipped:segment-construction-failed", 1)
				continue
			}
			v := Violation{Prop: e.prop, CaseID: c.ID, Kind: "spec-mismatch", Case: c, QueryIx: d}
			if shrunk < 2 {
				shrunk++
				small := shrinkCase(c, func(x *Case) bool { b, _ := e.mismatches(x, run); return b }, 400)
				v.Case = small
			}
			_, v.Detail = e.mismatches(v.Case, run)
			if v.Detail == "" {
				v.Detail = fmt.Sprintf("query %d (not reproducible in isolation)", d)
			}
			vs = append(vs, v)
			continue
		}
		if len(outs[i].SameDiffs) > 0 {
			v := Violation{Prop: e.prop, CaseID: c.ID, Kind: "same-mismatch", Case: c,
				Detail: strings.Join(outs[i].SameDiffs[:min(3, len(outs[i].SameDiffs))], "\n")}
			v.Extra = "# kinds: " + strings.Join(uniq(outs[i].SameKinds), ",") + "\n"
			vs = append(vs, v)
		}
	}
	return vs
}

func min(a, b int) int {
	if a < b {
		return a
	}
	return b
}

func uniq(l []string) []string {
	m := map[string]bool{}
	var out []string
	for _, x := range l {
		if !m[x] {
			m[x] = true
			out = append(out, x)
		}
	}
	return out
}

func cmdGen(args []string) int {
	fs := flag.NewFlagSet("gen", flag.ExitOnError)
	prop := fs.String("prop", "", "property id")
	tier := fs.String("tier", "quick", "")
	seed := fs.Uint64("seed", 1, "")
	n := fs.Int("n", 3, "how many cases to print")
	_ = fs.Parse(args)
	pd := props[*prop]
	for i, g := range pd.gen(*tier, *seed) {
		if i >= *n {
			break
		}
		g.c.Write(os.Stdout)
	}
	return 0
}

// cmdRun: run a case file on the implementation and print the transcript.
func cmdRun(args []string) int {
	fs := flag.NewFlagSet("run", flag.ExitOnError)
	file := fs.String("file", "", "case file")
	reuse := fs.Bool("reuse", false, "")
	_ = fs.Parse(args)
	f, err := os.Open(*file)
	if err != nil {
		fmt.Fprintln(os.Stderr, err)
		return 2
	}
	cs, err := ParseCases(f)
	if err != nil {
		fmt.Fprintln(os.Stderr, err)
		return 2
	}
	for _, c := range cs {
		o := RunCase(c, *reuse)
		for _, l := range o.Lines {
			fmt.Println(l)
		}
		for _, d := range o.SameDiffs {
			fmt.Println("# " + strings.ReplaceAll(d, "\n", "\n# "))
		}
	}
	return 0
}

// cmdReplay: re-run a replay file through the property's decision procedure.
func cmdReplay(args []string) int {
	fs := flag.NewFlagSet("replay", flag.ExitOnError)
	prop := fs.String("prop", "", "property id")
	file := fs.String("file", "", "replay file")
	model := fs.String("model", "/verif/lean/.lake/build/bin/icemodel", "")
	out := fs.String("out", "/verif", "")
	_ = fs.Parse(args)
	f, err := os.Open(*file)
	if err != nil {
		fmt.Fprintln(os.Stderr, err)
		return 2
	}
	cs, err := ParseCases(f)
	if err != nil {
		fmt.Fprintln(os.Stderr, err)
		return 2
	}
	pd := props[*prop]
	reuse := pd != nil && pd.reuse
	e := newEngine(*prop, "quick", 0, *model, *out)
	vs := e.runSpecDiff(cs, reuse)
	for _, v := range vs {
		fmt.Printf("VIOLATION property=%s replay=%s\n%s\n", *prop, *file, v.Detail)
	}
	if len(vs) > 0 {
		return 1
	}
	fmt.Println("replay: no disagreement")
	return 0
}

var _ = strconv.Itoa

// matchPredicate decides whether a violation is the one a known-findings entry describes.
func matchPredicate(pred string, v *Violation) bool {
	switch pred {
	case "rebuild-dv-flag-disagreement":
		// only doc-value lines differ between merged and rebuilt, and the leaf batches of the
		// case disagree on whether some field has doc values
		if v.Kind != "same-mismatch" || v.Case == nil {
			return false
		}
		if !strings.Contains(v.Extra, "# kinds: dv\n") {
			return false
		}
		return dvInconsistent(v.Case)
	}
	return false
}

// dvInconsistent: some field carries the doc-values flag in one leaf batch and occurs without
// it in every instance of another leaf batch.
func dvInconsistent(c *Case) bool {
	type st struct{ any, flag bool }
	var per []map[string]*st
	for _, s := range c.Segs {
		if s.Kind != "build" {
			continue
		}
		m := map[string]*st{}
		for _, d := range s.Docs {
			for _, f := range d {
				x := m[string(f.Name)]
				if x == nil {
					x = &st{}
					m[string(f.Name)] = x
				}
				x.any = true
				if f.DV {
					x.flag = true
				}
			}
		}
		per = append(per, m)
	}
	for i := range per {
		for name, a := range per[i] {
			for j := range per {
				if b := per[j][name]; b != nil && a.flag != b.flag {
					return true
				}
			}
		}
	}
	return false
}

// cmdBuildHash: `icecheck buildhash -file <case> [-history]` builds, in THIS fresh process, the
// batches of the case's build segments in order - all of them with -history, only the last one
// without - and prints the SHA-256 of the bytes of the LAST one.  The C14 leg runs it twice to see
// whether process-wide state set up by an earlier build (outside the pooled builder) changes the
// bytes of a later one; both runs execute the same code, so a uniform change of the output (another
// compression level, say) is not reported.
func cmdBuildHash(args []string) int {
	fs := flag.NewFlagSet("buildhash", flag.ExitOnError)
	file := fs.String("file", "", "case file")
	history := fs.Bool("history", false, "build the earlier batches of the case first")
	_ = fs.Parse(args)
	f, err := os.Open(*file)
	if err != nil {
		fmt.Fprintln(os.Stderr, err)
		return 2
	}
	defer f.Close()
	cs, err := ParseCases(f)
	if err != nil || len(cs) != 1 {
		fmt.Fprintln(os.Stderr, "buildhash: cannot parse case:", err)
		return 2
	}
	c := cs[0]
	var builds []*SegDef
	for i := range c.Segs {
		if c.Segs[i].Kind == "build" {
			builds = append(builds, &c.Segs[i])
		}
	}
	if len(builds) == 0 {
		return 2
	}
	from := len(builds) - 1
	if *history {
		from = 0
	}
	var last []byte
	for _, sd := range builds[from:] {
		b, err := buildBytes(sd.Docs, c.Norm, sd.Mode)
		if err != nil {
			fmt.Println("err")
			return 0
		}
		last = b
	}
	fmt.Printf("%x %d\n", sha256.Sum256(last), len(last))
	return 0
}
