package main

import (
	"fmt"
	"sort"
	"strings"
)

// Case generators per property.  Each returns cases plus, per case, whether it is
// "non-trivial" by the property's rule (reported in the evidence).

type genOut struct {
	c          *Case
	nontrivial bool
	class      string
}

type sizes struct{ tiny, block, chunk int }

func tierSizes(tier string, q, t sizes) sizes {
	if tier == "thorough" {
		// per round (the thorough tier runs several rounds with different seeds, see cmdCheck)
		return sizes{t.tiny*2/5 + 1, t.block*2/5 + 1, t.chunk*2/5 + 1}
	}
	// quick: the sizes written at the call sites are tripled for the small class (seconds, not minutes)
	return sizes{q.tiny * 3, q.block + 1, q.chunk}
}

func blockMode(r *Rng) (uint32, string) {
	ms := []uint32{1, 2, 3, 5, 64, 128, 1024, 1025}
	m := ms[r.Intn(len(ms))]
	if m == 1025 && r.Chance(1, 2) {
		return m, "pub"
	}
	return m, "hook"
}

func chunkMode(r *Rng) (uint32, string) {
	switch r.Intn(4) {
	case 0:
		return 1025, "pub"
	case 1:
		return 1024, "hook"
	case 2:
		return 100, "hook"
	default:
		return 1025, "hook"
	}
}

// leaf batch of a size class
func (cb *caseBuilder) genLeaf(class string, idPrefix string) ([]Doc, uint32, string) {
	r := cb.r
	switch class {
	case "block":
		n := r.Range(129, 400)
		m, api := blockMode(r)
		return cb.u.genBatch(r, n, docOpts{maxInst: 2, maxTerms: 2, bigValue: r.Chance(1, 3)}, idPrefix), m, api
	case "chunk":
		n := r.Range(1025, 2600)
		m, api := chunkMode(r)
		return cb.u.genBatch(r, n, docOpts{maxInst: 2, maxTerms: 2}, idPrefix), m, api
	default:
		n := r.Intn(7)
		if r.Chance(1, 6) {
			n = r.Range(7, 14)
		}
		m, api := tinyMode(r)
		return cb.u.genBatch(r, n, docOpts{maxInst: 4, maxTerms: 4}, idPrefix), m, api
	}
}

func classOf(i int, s sizes) string {
	if i < s.tiny {
		return "tiny"
	}
	if i < s.tiny+s.block {
		return "block"
	}
	return "chunk"
}

func caseID(prop string, seed uint64, i int) string { return fmt.Sprintf("%s-%d-%d", prop, seed, i) }

// multiChunk reports whether some term of a batch spans more than one chunk under mode.
func batchFeatures(docs []Doc, mode uint32) (repeatedField, composite, multiChunk, bigTerm bool) {
	df := map[string]map[int]bool{}
	for i, d := range docs {
		seen := map[string]bool{}
		for _, f := range d {
			if seen[string(f.Name)] {
				repeatedField = true
			}
			seen[string(f.Name)] = true
			for _, t := range f.Terms {
				k := string(f.Name) + "\x00" + string(t.Term)
				if df[k] == nil {
					df[k] = map[int]bool{}
				}
				df[k][i] = true
				for _, l := range t.Locs {
					if len(l.Field) > 0 && string(l.Field) != string(f.Name) {
						composite = true
					}
				}
			}
		}
	}
	for _, ds := range df {
		if len(ds) > 1024 {
			bigTerm = true
		}
		cs := uint64(mode)
		if mode == 1025 {
			cs = uint64(len(docs)) / (uint64(len(ds))/1024 + 1)
		}
		if cs == 0 {
			continue
		}
		chunks := map[uint64]bool{}
		for d := range ds {
			chunks[uint64(d)/cs] = true
		}
		if len(chunks) > 1 {
			multiChunk = true
		}
	}
	return
}

func genC01(tier string, seed uint64) []genOut {
	s := tierSizes(tier, sizes{300, 3, 1}, sizes{6000, 40, 10})
	var out []genOut
	for i := 0; i < s.tiny+s.block+s.chunk; i++ {
		class := classOf(i, s)
		r := NewRng(seed, "C01", uint64(i))
		cb := newCaseBuilder(caseID("C01", seed, i), r)
		if class == "chunk" && len(cb.u.terms) > 4 {
			cb.u.terms = cb.u.terms[:3]
		}
		docs, m, api := cb.genLeaf(class, "d")
		sg := cb.addBuild(docs, m, api)
		cb.observeAll(sg)
		rep, comp, mc, _ := batchFeatures(docs, m)
		out = append(out, genOut{cb.c, rep || comp || mc, class})
	}
	na := 3
	if tier == "thorough" {
		na = 24
	}
	out = append(out, genAdaptiveBuild("C01", seed, na)...)
	return out
}

// genMergePlan defines 1..k leaves (and possibly an inner merge) and a final merge; returns the
// final segment index and the rebuilt-survivors segment index (or -1).
func (cb *caseBuilder) genMergePlan(class string, withRebuild bool) (final int, rebuild int) {
	r := cb.r
	k := r.Range(1, 4)
	if class != "tiny" {
		k = r.Range(1, 2)
	}
	sameFields := r.Chance(1, 3)
	var leaves []int
	for i := 0; i < k; i++ {
		sub := cb.u.fields
		if !sameFields && len(cb.u.fields) > 1 {
			// a random non-empty subset of the universe
			var s [][]byte
			for _, f := range cb.u.fields {
				if r.Chance(2, 3) {
					s = append(s, f)
				}
			}
			if len(s) == 0 {
				s = cb.u.fields[:1]
			}
			sub = s
		}
		saved := cb.u.fields
		cb.u.fields = sub
		cl := class
		if class != "tiny" && i > 0 {
			cl = "tiny"
		}
		docs, m, api := cb.genLeaf(cl, fmt.Sprintf("s%d-", i))
		cb.u.fields = saved
		sg := cb.addBuild(docs, m, api)
		if r.Chance(1, 6) {
			sg = cb.addLoad(sg, []string{"mem", "file"}[r.Intn(2)])
		}
		leaves = append(leaves, sg)
	}
	// optional inner merge of a prefix of the leaves
	if len(leaves) >= 2 && r.Chance(1, 3) {
		j := r.Range(1, len(leaves)-1) + 1 // merge leaves[0:j], j>=2 unless len==2
		if j > len(leaves) {
			j = len(leaves)
		}
		var ins []MergeIn
		for _, l := range leaves[:j] {
			in := genDrops(r, cb.n[l])
			in.Seg = l
			ins = append(ins, in)
		}
		if r.Chance(1, 5) {
			// an inner merge in which nothing survives (a zero-document segment that still
			// carries the field names of its inputs)
			for x := range ins {
				all := make([]uint32, cb.n[ins[x].Seg])
				for d := range all {
					all[d] = uint32(d)
				}
				ins[x] = MergeIn{Seg: ins[x].Seg, Drops: all}
			}
		}
		m, api := mergeMode(r)
		inner := cb.addMerge(ins, m, api, bufSize(r))
		rest := append([]int{}, leaves[j:]...)
		// the inner merge takes part at any position of the outer one
		pos := r.Intn(len(rest) + 1)
		leaves = append(append(append([]int{}, rest[:pos]...), inner), rest[pos:]...)
	}
	var ins []MergeIn
	for _, l := range leaves {
		in := genDrops(r, cb.n[l])
		in.Seg = l
		ins = append(ins, in)
	}
	// sometimes the same segment takes part twice (a self-merge: its documents appear twice, each
	// occurrence with its own deletions)
	if len(ins) >= 1 && r.Chance(1, 9) {
		dup := genDrops(r, cb.n[ins[0].Seg])
		dup.Seg = ins[0].Seg
		ins = append(ins, dup)
	}
	m, api := mergeMode(r)
	final = cb.addMerge(ins, m, api, bufSize(r))
	// sometimes a further generation: the result merged again, alone, with one of its own inputs,
	// or with itself, again with deletions
	if r.Chance(1, 6) {
		a := genDrops(r, cb.n[final])
		a.Seg = final
		next := []MergeIn{a}
		switch r.Intn(3) {
		case 0:
			b := genDrops(r, cb.n[leaves[0]])
			b.Seg = leaves[0]
			if r.Chance(1, 2) {
				next = append(next, b)
			} else {
				next = append([]MergeIn{b}, next...)
			}
		case 1:
			b := genDrops(r, cb.n[final])
			b.Seg = final
			next = append(next, b)
		}
		m2, api2 := mergeMode(r)
		final = cb.addMerge(next, m2, api2, bufSize(r))
		m = m2
	}
	rebuild = -1
	if withRebuild && locsValid(cb.docs[final]) {
		// the survivors as one batch, rebuilt directly (C02's reference); only when the
		// survivors still satisfy the input contract (a location may name a field that only
		// deleted documents carried: then "rebuilt from the survivors" is not defined)
		rebuild = cb.addBuild(cb.docs[final], m, "hook")
	}
	return final, rebuild
}

func mergeMode(r *Rng) (uint32, string) {
	if r.Chance(1, 4) {
		return 1025, "pub"
	}
	ms := []uint32{1, 2, 3, 4, 5, 1024, 1025}
	return ms[r.Intn(len(ms))], "hook"
}

func bufSize(r *Rng) int {
	return []int{1, 7, 16, 64, 4096, 1 << 20}[r.Intn(6)]
}

func (cb *caseBuilder) same(a, b int, mode string) {
	cb.c.Sames = append(cb.c.Sames, SamePair{A: a, B: b, Mode: mode})
}

func genC02(tier string, seed uint64) []genOut {
	s := tierSizes(tier, sizes{250, 2, 1}, sizes{5000, 30, 6})
	var out []genOut
	for i := 0; i < s.tiny+s.block+s.chunk; i++ {
		class := classOf(i, s)
		r := NewRng(seed, "C02", uint64(i))
		cb := newCaseBuilder(caseID("C02", seed, i), r)
		if class == "chunk" && len(cb.u.terms) > 4 {
			cb.u.terms = cb.u.terms[:3]
		}
		final, rebuild := cb.genMergePlan(class, true)
		cb.observeAll(final)
		cb.q("docnums", itoa(final))
		cb.q("mergen", itoa(final))
		if rebuild >= 0 {
			cb.same(final, rebuild, "rebuild")
		}
		if cb.n[final] > 0 {
			cb.iterQueries(final, 8) // Next / Advance scripts: merged segments hold 1-hit lists
		}
		nt := cb.n[final] > 0 && len(cb.c.Segs[final].Ins) > 1
		out = append(out, genOut{cb.c, nt, class})
	}
	na := 3
	if tier == "thorough" {
		na = 24
	}
	out = append(out, genAdaptiveMerge("C02", seed, na, true)...)
	out = append(out, genCopyPath("C02", seed, na)...)
	out = append(out, genGhostFields("C02", seed, 4*na)...)
	out = append(out, genUpsertMerge("C02", seed, 10*na)...)
	out = append(out, genSparseDV("C02", seed, na, true, true)...)
	return out
}

func genC03(tier string, seed uint64) []genOut {
	s := tierSizes(tier, sizes{300, 2, 0}, sizes{6000, 20, 4})
	var out []genOut
	for i := 0; i < s.tiny+s.block+s.chunk; i++ {
		class := classOf(i, s)
		r := NewRng(seed, "C03", uint64(i))
		cb := newCaseBuilder(caseID("C03", seed, i), r)
		final, _ := cb.genMergePlan(class, false)
		fs := itoa(final)
		cb.q("docnums", fs)
		cb.q("count", fs)
		cb.q("mergen", fs)
		for _, d := range cb.sampleDocs(cb.n[final], 60) {
			cb.q("stored", fs, itoa(d), "-1")
		}
		for _, f := range cb.queryFields() {
			for _, t := range cb.queryTerms() {
				cb.q("iter", fs, hx(f), hx(t), "~", "111", "w")
			}
		}
		if cb.n[final] > 0 {
			cb.q("dv", fs, hxList(cb.queryFields()), intList(cb.sampleDocs(cb.n[final], 60)))
		}
		hasDrop := false
		for _, in := range cb.c.Segs[final].Ins {
			if len(in.Drops) > 0 {
				hasDrop = true
			}
		}
		out = append(out, genOut{cb.c, hasDrop, class})
	}
	na := 2
	if tier == "thorough" {
		na = 12
	}
	out = append(out, genAdaptiveMerge("C03", seed, na, false)...)
	out = append(out, genCopyPath("C03", seed, na)...)
	out = append(out, genGhostFields("C03", seed, 6*na)...)
	out = append(out, genUpsertMerge("C03", seed, 10*na)...)
	return out
}

func genC04(tier string, seed uint64) []genOut {
	s := tierSizes(tier, sizes{200, 2, 1}, sizes{4000, 30, 6})
	var out []genOut
	for i := 0; i < s.tiny+s.block+s.chunk; i++ {
		class := classOf(i, s)
		r := NewRng(seed, "C04", uint64(i))
		cb := newCaseBuilder(caseID("C04", seed, i), r)
		var sg int
		if r.Chance(1, 2) {
			docs, m, api := cb.genLeaf(class, "d")
			sg = cb.addBuild(docs, m, api)
		} else {
			sg, _ = cb.genMergePlan(class, false)
			cb.q("mergen", itoa(sg))
		}
		lm := cb.addLoad(sg, "mem")
		lf := cb.addLoad(sg, "file")
		ll := cb.addLoad(lf, "mem") // a loaded segment persisted and loaded again
		for _, x := range []int{sg, lm, lf, ll} {
			cb.observeAll(x)
			cb.q("crc", itoa(x))
		}
		out = append(out, genOut{cb.c, cb.n[sg] > 0, class})
	}
	// merges whose deletions move cardinalities across chunk-size buckets, read after loading
	na := 2
	if tier == "thorough" {
		na = 12
	}
	for _, g := range genAdaptiveMerge("C04", seed, na, false) {
		cb := &caseBuilder{c: g.c, r: NewRng(seed, "C04-adm-load", 0)}
		final := len(g.c.Segs) - 1
		cb.n = make([]int, len(g.c.Segs))
		cb.docs = make([][]Doc, len(g.c.Segs))
		var qs []Query
		for _, backing := range []string{"mem", "file"} {
			ld := cb.addLoad(final, backing)
			for _, q := range g.c.Queries {
				if len(q) > 1 && q[1] == itoa(final) && q[0] != "docnums" {
					qq := append(Query(nil), q...)
					qq[1] = itoa(ld)
					qs = append(qs, qq)
				}
			}
		}
		g.c.Queries = append(g.c.Queries, qs...)
		out = append(out, g)
	}
	out = append(out, genUpsertMerge("C04", seed, 10*na)...)
	return out
}

// --- C05 ---

func (cb *caseBuilder) genOps(n int) []string {
	r := cb.r
	k := r.Range(1, 10)
	var ops []string
	target := 0
	for i := 0; i < k; i++ {
		switch r.Intn(5) {
		case 0, 1:
			ops = append(ops, "n")
		case 4:
			if r.Chance(1, 3) {
				ops = append(ops, "w")
				continue
			}
			fallthrough
		default:
			step := r.Intn(4)
			if r.Chance(1, 6) {
				step = r.Intn(n + 3)
			}
			target += step
			ops = append(ops, "a"+itoa(target))
		}
	}
	return ops
}

func (cb *caseBuilder) genExcept(n int) string {
	r := cb.r
	switch r.Intn(6) {
	case 0:
		return "~"
	case 1:
		return "-"
	case 2:
		all := make([]int, n)
		for i := range all {
			all[i] = i
		}
		return intList(all)
	default:
		var e []int
		p := r.Range(1, 6)
		for i := 0; i < n; i++ {
			if r.Chance(p, 8) {
				e = append(e, i)
			}
		}
		return intList(e)
	}
}

var allFlags = []string{"000", "100", "010", "001", "110", "101", "011", "111"}

func (cb *caseBuilder) iterQueries(sg int, count int) (adv, excl bool) {
	r := cb.r
	n := cb.n[sg]
	fs := cb.queryFields()
	ts := cb.queryTerms()
	for i := 0; i < count; i++ {
		f := fs[r.Intn(len(fs))]
		t := ts[r.Intn(len(ts))]
		e := cb.genExcept(n)
		ops := cb.genOps(n)
		fl := allFlags[r.Intn(8)]
		if r.Chance(1, 2) {
			fl = "111"
		}
		for _, o := range ops {
			if o[0] == 'a' {
				adv = true
			}
		}
		if e != "~" && e != "-" {
			excl = true
		}
		q := append([]string{"iter", itoa(sg), hx(f), hx(t), e, fl}, ops...)
		cb.q(q...)
	}
	return
}

func genC05(tier string, seed uint64) []genOut {
	s := tierSizes(tier, sizes{250, 2, 1}, sizes{5000, 30, 8})
	var out []genOut
	for i := 0; i < s.tiny+s.block+s.chunk; i++ {
		class := classOf(i, s)
		r := NewRng(seed, "C05", uint64(i))
		cb := newCaseBuilder(caseID("C05", seed, i), r)
		if len(cb.u.terms) > 4 {
			cb.u.terms = cb.u.terms[:r.Range(2, 4)]
		}
		if len(cb.u.fields) > 2 {
			cb.u.fields = cb.u.fields[:2]
		}
		var sg int
		var mc bool
		switch {
		case class == "tiny" && r.Chance(1, 3):
			sg, _ = cb.genMergePlan("tiny", false) // 1-hit material
		default:
			var docs []Doc
			var m uint32
			var api string
			if class == "tiny" {
				n := r.Range(2, 14)
				m, api = []uint32{1, 2, 3, 4, 5}[r.Intn(5)], "hook"
				docs = cb.u.genBatch(r, n, docOpts{maxInst: 3, maxTerms: 3}, "d")
			} else {
				docs, m, api = cb.genLeaf(class, "d")
			}
			sg = cb.addBuild(docs, m, api)
			_, _, mc, _ = batchFeatures(docs, m)
		}
		cnt := 40
		if class != "tiny" {
			cnt = 25
		}
		adv, excl := cb.iterQueries(sg, cnt)
		// ReplaceActual on built segments (never 1-hit)
		if cb.c.Segs[sg].Kind == "build" && cb.n[sg] > 0 {
			for j := 0; j < 6; j++ {
				f := cb.u.fields[r.Intn(len(cb.u.fields))]
				t := cb.u.terms[r.Intn(len(cb.u.terms))]
				keep := cb.genExcept(cb.n[sg])
				if keep == "~" {
					keep = "-"
				}
				q := append([]string{"iterR", itoa(sg), hx(f), hx(t), "~", keep, allFlags[r.Intn(8)]}, cb.genOps(cb.n[sg])...)
				cb.q(q...)
			}
			// (second pass: these may take an iterator whose actual bitmap was replaced as prealloc)
			cb.iterQueries(sg, 6)
		}
		out = append(out, genOut{cb.c, adv && excl && (mc || class != "tiny"), class})
	}
	na := 2
	if tier == "thorough" {
		na = 16
	}
	out = append(out, genAdaptiveBuild("C05", seed, na)...)
	out = append(out, genAdaptiveMerge("C05", seed, na, false)...)
	return out
}

// --- C06 ---

func genC06(tier string, seed uint64) []genOut {
	s := tierSizes(tier, sizes{80, 10, 0}, sizes{1500, 120, 4})
	var out []genOut
	n := s.tiny + s.block + s.chunk
	for i := 0; i < n; i++ {
		class := classOf(i, s)
		r := NewRng(seed, "C06", uint64(i))
		cb := newCaseBuilder(caseID("C06", seed, i), r)
		var sg int
		switch r.Intn(3) {
		case 0:
			sg, _ = cb.genMergePlan(class, false)
		default:
			docs, m, api := cb.genLeaf(class, "d")
			sg = cb.addBuild(docs, m, api)
			if r.Chance(1, 3) {
				sg = cb.addLoad(sg, []string{"mem", "file"}[r.Intn(2)])
			}
		}
		nd := cb.n[sg]
		k := 40
		if nd > 0 {
			for j := 0; j < k; j++ {
				d := r.Intn(nd)
				if nd > 128 && r.Chance(1, 2) {
					// block edges and the last documents
					d = []int{0, 127, 128, 129, nd - 1, nd - 2, 255, 256}[r.Intn(8)] % nd
				}
				stop := "-1"
				if r.Chance(1, 4) {
					stop = itoa(r.Range(1, 3))
				}
				cb.q("stored", itoa(sg), itoa(d), stop)
			}
		}
		cb.q("stored", itoa(sg), itoa(nd), "-1")
		cb.q("stored", itoa(sg), itoa(nd+r.Intn(300)), "-1")
		out = append(out, genOut{cb.c, nd > 128, class})
	}
	// capacity sweep: block 0 is large, block 1 ends in a very short record; the value of
	// document 128 is padded so that block 1's size sweeps across the reused buffer's capacity
	sweep := 64
	if tier == "thorough" {
		sweep = 96
	}
	for pad := 0; pad < sweep; pad++ {
		r := NewRng(seed, "C06-cap", uint64(pad))
		cb := newCaseBuilder(caseID("C06cap", seed, pad), r)
		docs := make([]Doc, 130)
		for i := 0; i < 128; i++ {
			docs[i] = Doc{{Name: []byte("_id"), Store: true, Value: []byte{byte(i)}}}
		}
		// block 0 is 128 records of 6 bytes (768 bytes, so the buffer's capacity becomes 768+16);
		// block 1 = one record of len+7 bytes plus a 2- or 5-byte record
		big := 768 - 40
		docs[128] = Doc{{Name: []byte("_id"), Store: true, Value: randBytes(r, big+pad)}}
		docs[129] = Doc{}
		if r.Chance(1, 2) {
			docs[129] = Doc{{Name: []byte("_id"), Store: true, Value: []byte{}}}
		}
		sg := cb.addBuild(docs, 1025, "pub")
		if r.Chance(1, 2) {
			sg = cb.addLoad(sg, "mem")
		}
		for _, d := range []int{0, 129, 128, 129, 5, 129} {
			cb.q("stored", itoa(sg), itoa(d), "-1")
		}
		out = append(out, genOut{cb.c, true, "capsweep"})
	}
	ncp := 6
	if tier == "thorough" {
		ncp = 60
	}
	out = append(out, genCopyPath("C06", seed, ncp)...)
	out = append(out, genGhostFields("C06", seed, 2*ncp)...)
	return out
}

// --- C07 ---

func genC07(tier string, seed uint64) []genOut {
	s := tierSizes(tier, sizes{120, 2, 3}, sizes{2500, 20, 30})
	var out []genOut
	for i := 0; i < s.tiny+s.block+s.chunk; i++ {
		class := classOf(i, s)
		r := NewRng(seed, "C07", uint64(i))
		cb := newCaseBuilder(caseID("C07", seed, i), r)
		// at least one dv-capable field
		cb.u.dvOK[string(cb.u.fields[0])] = true
		// drop terms with 0xff for dv fields is handled by termFor
		if class == "chunk" && len(cb.u.terms) > 4 {
			cb.u.terms = cb.u.terms[:4]
		}
		var sg int
		if r.Chance(1, 3) {
			sg, _ = cb.genMergePlan(class, false)
		} else {
			docs, m, api := cb.genLeaf(class, "d")
			if class == "chunk" && r.Chance(1, 2) {
				// sparse: whole 1024-document chunks without any value
				lo, hi := r.Intn(len(docs)), r.Intn(len(docs))
				if lo > hi {
					lo, hi = hi, lo
				}
				for j := range docs {
					if j < lo || j > hi {
						docs[j] = Doc{}
					}
				}
				fixLocs(docs) // a location may have named a field only the emptied documents carried
			}
			sg = cb.addBuild(docs, m, api)
			if r.Chance(1, 4) {
				sg = cb.addLoad(sg, []string{"mem", "file"}[r.Intn(2)])
			}
		}
		nd := cb.n[sg]
		if nd > 0 {
			for j := 0; j < 6; j++ {
				// a subset and order of requested fields
				fs := cb.queryFields()
				p := permute(r, len(fs))
				var req [][]byte
				for _, x := range p {
					if r.Chance(2, 3) {
						req = append(req, fs[x])
						if r.Chance(1, 6) {
							req = append(req, fs[x]) // the same field twice
						}
					}
				}
				if r.Chance(1, 5) {
					req = append(req, []byte("nosuchfield"))
					req = append(req, fs[p[0]])
				}
				var order []int
				switch r.Intn(4) {
				case 0: // forwards
					order = cb.sampleDocs(nd, 40)
				case 1: // backwards
					order = cb.sampleDocs(nd, 40)
					sort.Sort(sort.Reverse(sort.IntSlice(order)))
				case 2: // random
					for k := 0; k < 40; k++ {
						order = append(order, r.Intn(nd))
					}
				default: // ping-pong across chunk boundaries
					edges := []int{1023, 1024, 0, 2047, 2048, 1025, 1022, nd - 1}
					for k := 0; k < 30; k++ {
						order = append(order, edges[r.Intn(len(edges))]%nd)
					}
				}
				cb.q("dv", itoa(sg), hxList(req), intList(order))
			}
		}
		out = append(out, genOut{cb.c, nd > 1024 || (nd > 0 && class == "tiny"), class})
	}
	nsd := 2
	if tier == "thorough" {
		nsd = 20
	}
	// one doc-value chunk of more than 1 MiB (280 documents, one 4000-byte term each)
	{
		r := NewRng(seed, "C07-bigdv", 0)
		cb := newCaseBuilder(caseID("C07big", seed, 0), r)
		tag := []byte("tag")
		cb.u.fields = [][]byte{[]byte("_id"), tag}
		cb.u.dvOK = map[string]bool{"tag": true}
		docs := make([]Doc, 280)
		for d := range docs {
			t := make([]byte, 4000)
			for k := range t {
				t[k] = byte('a' + (d*7+k*13)%23)
			}
			copy(t, fmt.Sprintf("%04d", d))
			docs[d] = Doc{{Name: tag, Length: 1, DV: true, Terms: []TermOcc{{Term: t, Freq: 1}}}}
		}
		sg := cb.addBuild(docs, 1024, "hook")
		cb.q("dv", itoa(sg), hx(tag), intList([]int{0, 279, 140, 1}))
		mg := cb.addMerge([]MergeIn{{Seg: sg, Drops: []uint32{5, 6}}}, 1024, "hook", 4096)
		cb.q("dv", itoa(mg), hx(tag), intList([]int{0, 277, 5, 4}))
		out = append(out, genOut{cb.c, true, "big-dv-chunk"})
	}
	out = append(out, genSparseDV("C07", seed, nsd, false, false)...)
	out = append(out, genSparseDV("C07", seed+1000003, nsd, true, false)...)
	return out
}

// --- C08 ---

func (cb *caseBuilder) dictQueries(sg int, count int) {
	r := cb.r
	fs := cb.queryFields()
	fs = append(fs, []byte{})
	bounds := append([][]byte{}, cb.u.terms...)
	bounds = append(bounds, []byte("m"), []byte{0x00}, []byte{0xff, 0xff})
	for i := 0; i < count; i++ {
		f := fs[r.Intn(len(fs))]
		lo, hi := "~", "~"
		var lob, hib []byte
		if r.Chance(1, 2) {
			lob = bounds[r.Intn(len(bounds))]
		}
		if r.Chance(1, 2) {
			hib = bounds[r.Intn(len(bounds))]
		}
		if len(lob) > 0 && len(hib) > 0 && strings.Compare(string(lob), string(hib)) > 0 {
			lob, hib = hib, lob
		}
		if len(lob) > 0 {
			lo = hx(lob)
		}
		if len(hib) > 0 {
			hi = hx(hib)
		}
		aut := "any"
		if r.Chance(1, 3) {
			t := cb.u.terms[r.Intn(len(cb.u.terms))]
			if len(t) > 0 {
				t = t[:r.Range(0, len(t))]
			}
			aut = "pfx:" + hx(t)
		}
		cb.q("dict", itoa(sg), hx(f), lo, hi, aut)
	}
	for _, f := range fs {
		for _, t := range cb.queryTerms() {
			cb.q("contains", itoa(sg), hx(f), hx(t))
			cb.q("iter", itoa(sg), hx(f), hx(t), "~", "111", "w")
		}
	}
}

func genC08(tier string, seed uint64) []genOut {
	s := tierSizes(tier, sizes{250, 2, 1}, sizes{5000, 20, 4})
	var out []genOut
	for i := 0; i < s.tiny+s.block+s.chunk; i++ {
		class := classOf(i, s)
		r := NewRng(seed, "C08", uint64(i))
		cb := newCaseBuilder(caseID("C08", seed, i), r)
		var sg int
		merged := r.Chance(1, 2)
		if merged {
			sg, _ = cb.genMergePlan(class, false)
		} else {
			docs, m, api := cb.genLeaf(class, "d")
			sg = cb.addBuild(docs, m, api)
		}
		cb.dictQueries(sg, 14)
		out = append(out, genOut{cb.c, merged && cb.n[sg] > 1, class})
	}
	return out
}

// --- C11 ---

func genC11(tier string, seed uint64) []genOut {
	s := tierSizes(tier, sizes{200, 2, 1}, sizes{4000, 20, 4})
	var out []genOut
	for i := 0; i < s.tiny+s.block+s.chunk; i++ {
		class := classOf(i, s)
		r := NewRng(seed, "C11", uint64(i))
		cb := newCaseBuilder(caseID("C11", seed, i), r)
		var sg int
		if r.Chance(1, 2) {
			docs, m, api := cb.genLeaf(class, "d")
			sg = cb.addBuild(docs, m, api)
		} else {
			sg, _ = cb.genMergePlan(class, false)
			cb.q("mergen", itoa(sg))
		}
		lm := cb.addLoad(sg, "mem")
		lf := cb.addLoad(sg, "file")
		for _, x := range []int{sg, lm, lf} {
			cb.q("crc", itoa(x))
			cb.q("repersist", itoa(x))
		}
		out = append(out, genOut{cb.c, true, class})
	}
	return out
}

// --- C13 (executed in reuse mode) ---

func genC13(tier string, seed uint64) []genOut {
	s := tierSizes(tier, sizes{200, 2, 1}, sizes{4000, 20, 4})
	var out []genOut
	for i := 0; i < s.tiny+s.block+s.chunk; i++ {
		class := classOf(i, s)
		r := NewRng(seed, "C13", uint64(i))
		cb := newCaseBuilder(caseID("C13", seed, i), r)
		if len(cb.u.terms) > 5 {
			cb.u.terms = cb.u.terms[:5]
		}
		if class == "chunk" {
			cb.u.dvOK[string(cb.u.fields[0])] = true
			cb.u.dvAll = true
		}
		// several segments: built (general encoding) and merged (1-hit encodings)
		var segs []int
		docs, m, api := cb.genLeaf(class, "d")
		segs = append(segs, cb.addBuild(docs, m, api))
		mg, _ := cb.genMergePlan("tiny", false)
		segs = append(segs, mg)
		docs2, m2, api2 := cb.genLeaf("tiny", "e")
		segs = append(segs, cb.addBuild(docs2, m2, api2))
		// interleave lookups over the segments
		for j := 0; j < 30; j++ {
			sg := segs[r.Intn(len(segs))]
			switch r.Intn(6) {
			case 0:
				cb.dictQueries(sg, 1)
			case 1:
				if cb.n[sg] > 0 {
					fs := cb.queryFields()
					var order []int
					for k := 0; k < 8; k++ {
						order = append(order, r.Intn(cb.n[sg]))
					}
					cb.q("dv", itoa(sg), hxList(fs), intList(order))
				}
			case 3:
				// an iterator whose actual bitmap was replaced by the caller's own, reused later
				if cb.c.Segs[sg].Kind == "build" && cb.n[sg] > 0 {
					f := cb.u.fields[r.Intn(len(cb.u.fields))]
					t := cb.u.terms[r.Intn(len(cb.u.terms))]
					keep := cb.genExcept(cb.n[sg])
					if keep == "~" {
						keep = "-"
					}
					cb.q(append([]string{"iterR", itoa(sg), hx(f), hx(t), "~", keep, allFlags[r.Intn(8)]}, cb.genOps(cb.n[sg])...)...)
				}
			case 2:
				// DocsMatchingTerms keeps one dictionary and one postings list across the terms of a call
				fs := append(cb.queryFields(), []byte("nosuch"))
				ts := cb.queryTerms()
				q := []string{"match", itoa(sg)}
				for x := r.Range(2, 6); x > 0; x-- {
					f := fs[r.Intn(len(fs))]
					if r.Chance(1, 3) {
						f = fs[0]
					}
					q = append(q, hx(f)+":"+hx(ts[r.Intn(len(ts))]))
				}
				cb.q(q...)
			default:
				cb.iterQueries(sg, 2)
			}
		}
		if class == "chunk" {
			// one doc-value reader (kept by the reuse context) across 1024-document chunks
			n0 := cb.n[segs[0]]
			for j := 0; j < 6; j++ {
				var order []int
				for k := 0; k < 6; k++ {
					order = append(order, []int{r.Intn(n0), 1023, 1024, 0, n0 - 1, 1025, 5}[r.Intn(7)]%n0)
				}
				cb.q("dv", itoa(segs[0]), hxList(cb.queryFields()), intList(order))
			}
		}
		out = append(out, genOut{cb.c, true, class})
	}
	out = append(out, genSparseDV("C13", seed, 2, false, false)...)
	return out
}

// --- C16 ---

func genC16(tier string, seed uint64) []genOut {
	s := tierSizes(tier, sizes{300, 2, 1}, sizes{6000, 20, 4})
	var out []genOut
	for i := 0; i < s.tiny+s.block+s.chunk; i++ {
		class := classOf(i, s)
		r := NewRng(seed, "C16", uint64(i))
		cb := newCaseBuilder(caseID("C16", seed, i), r)
		cb.u.exact = true
		var sg int
		merged := r.Chance(2, 3)
		if merged {
			sg, _ = cb.genMergePlan(class, false)
		} else {
			docs, m, api := cb.genLeaf(class, "d")
			sg = cb.addBuild(docs, m, api)
		}
		lm := cb.addLoad(sg, "mem")
		lf := cb.addLoad(sg, "file")
		for x := 0; x < len(cb.c.Segs); x++ {
			_ = lm
			_ = lf
			for _, f := range append(cb.queryFields(), []byte{}) {
				cb.q("stats", itoa(x), hx(f))
			}
		}
		// aggregation across segments through CollectionStats.Merge, in several orders, with
		// unknown fields first (the accumulator then is the "all zero" answer)
		nseg := len(cb.c.Segs)
		for j := 0; j < 6 && nseg > 1; j++ {
			k := r.Range(2, min(4, nseg))
			var idx []string
			for x := 0; x < k; x++ {
				idx = append(idx, itoa(r.Intn(nseg)))
			}
			fs := append(cb.queryFields(), []byte{})
			cb.q("statsmerge", strings.Join(idx, ","), hx(fs[r.Intn(len(fs))]))
		}
		for _, f := range cb.queryFields() {
			cb.q("stats", itoa(sg), hx(f))
		}
		out = append(out, genOut{cb.c, merged && cb.n[sg] > 0, class})
	}
	return out
}

// --- C18 ---

func genC18(tier string, seed uint64) []genOut {
	s := tierSizes(tier, sizes{300, 2, 1}, sizes{6000, 20, 4})
	var out []genOut
	for i := 0; i < s.tiny+s.block+s.chunk; i++ {
		class := classOf(i, s)
		r := NewRng(seed, "C18", uint64(i))
		cb := newCaseBuilder(caseID("C18", seed, i), r)
		var sg int
		switch r.Intn(3) {
		case 0:
			sg, _ = cb.genMergePlan(class, false)
		default:
			docs, m, api := cb.genLeaf(class, "d")
			sg = cb.addBuild(docs, m, api)
			if r.Chance(1, 3) {
				sg = cb.addLoad(sg, []string{"mem", "file"}[r.Intn(2)])
			}
		}
		fs := append(cb.queryFields(), []byte{}, []byte("other"))
		ts := cb.queryTerms()
		unknown := false
		for j := 0; j < 20; j++ {
			k := r.Intn(13)
			q := []string{"match", itoa(sg)}
			var last []byte
			for x := 0; x < k; x++ {
				f := fs[r.Intn(len(fs))]
				if x > 0 && r.Chance(1, 3) {
					f = last
				}
				last = f
				if string(f) == "nope" || string(f) == "other" || (len(f) == 0 && !cb.u.hasField(f)) {
					unknown = true
				}
				t := ts[r.Intn(len(ts))]
				q = append(q, hx(f)+":"+hx(t))
			}
			cb.q(q...)
		}
		out = append(out, genOut{cb.c, unknown && cb.n[sg] > 0, class})
	}
	nu := 40
	if tier == "thorough" {
		nu = 400
	}
	out = append(out, genUpsertMerge("C18", seed, nu)...)
	return out
}

// --- C17 ---

func genC17(tier string, seed uint64) []genOut {
	s := tierSizes(tier, sizes{200, 1, 0}, sizes{4000, 10, 2})
	var out []genOut
	for i := 0; i < s.tiny+s.block+s.chunk; i++ {
		class := classOf(i, s)
		r := NewRng(seed, "C17", uint64(i))
		cb := newCaseBuilder(caseID("C17", seed, i), r)
		cb.u.exact = true
		k := r.Range(2, 4)
		var leaves []int
		var drops []MergeIn
		for j := 0; j < k; j++ {
			cl := "tiny"
			if j == 0 {
				cl = class
			}
			docs, m, api := cb.genLeaf(cl, fmt.Sprintf("s%d-", j))
			sg := cb.addBuild(docs, m, api)
			leaves = append(leaves, sg)
			in := genDrops(r, cb.n[sg])
			in.Seg = sg
			drops = append(drops, in)
		}
		m, api := mergeMode(r)
		flat := cb.addMerge(drops, m, api, bufSize(r))
		variants := []int{}
		// every split point: (prefix) then rest; and (suffix) grouped
		for j := 2; j <= k; j++ {
			if j == k && k == 2 {
				// grouping everything = flat again; still a valid bracketing
			}
			// (a) inner merge carries the drops
			m1, api1 := mergeMode(r)
			inner := cb.addMerge(drops[:j], m1, api1, bufSize(r))
			ins := []MergeIn{{Seg: inner, Nil: true}}
			ins = append(ins, drops[j:]...)
			m2, api2 := mergeMode(r)
			variants = append(variants, cb.addMerge(ins, m2, api2, bufSize(r)))
			// (b) inner merge without drops, the drops translated through its document numbers
			var nodrop []MergeIn
			var translated []uint32
			base := 0
			for _, d := range drops[:j] {
				nodrop = append(nodrop, MergeIn{Seg: d.Seg, Nil: true})
				for _, x := range d.Drops {
					translated = append(translated, uint32(base)+x)
				}
				base += cb.n[d.Seg]
			}
			if translated == nil {
				translated = []uint32{}
			}
			m3, api3 := mergeMode(r)
			inner2 := cb.addMerge(nodrop, m3, api3, bufSize(r))
			ins2 := []MergeIn{{Seg: inner2, Drops: translated}}
			ins2 = append(ins2, drops[j:]...)
			m4, api4 := mergeMode(r)
			variants = append(variants, cb.addMerge(ins2, m4, api4, bufSize(r)))
		}
		// suffix grouping: first leaf, then (rest)
		if k >= 3 {
			m1, api1 := mergeMode(r)
			inner := cb.addMerge(drops[1:], m1, api1, bufSize(r))
			m2, api2 := mergeMode(r)
			variants = append(variants, cb.addMerge([]MergeIn{drops[0], {Seg: inner, Nil: true}}, m2, api2, bufSize(r)))
		}
		// identity
		m5, api5 := mergeMode(r)
		variants = append(variants, cb.addMerge([]MergeIn{{Seg: flat, Nil: true}}, m5, api5, bufSize(r)))
		cb.observeAll(flat)
		for _, v := range variants {
			cb.same(flat, v, "assoc")
		}
		// each variant is also compared with the specification on its statistics and postings
		for _, v := range variants {
			for _, f := range cb.queryFields() {
				cb.q("stats", itoa(v), hx(f))
			}
			cb.q("count", itoa(v))
		}
		out = append(out, genOut{cb.c, cb.n[flat] > 0 && k >= 3, class})
	}
	naa := 2
	if tier == "thorough" {
		naa = 10
	}
	out = append(out, genAdaptiveAssoc("C17", seed, naa)...)
	return out
}

// ---------- targeted families ----------

// adaptiveBatch: many small documents in which a few terms occur in (nearly) every document,
// often through repeated field instances - the inputs on which the adaptive chunk mode
// (chunkSize = numDocs / (cardinality/1024 + 1)) has more than one chunk and on which term
// occurrences, cardinalities before / after deletion and document counts all differ.
func (cb *caseBuilder) adaptiveBatch(n int, idPrefix string) []Doc {
	r := cb.r
	docs := make([]Doc, n)
	fname := []byte("t")
	px := r.Range(6, 10)
	py := r.Range(1, 5)
	for i := range docs {
		var d Doc
		d = append(d, FieldInst{Name: []byte("_id"), Length: 1, Store: true, Value: []byte(fmt.Sprintf("%s%d", idPrefix, i)),
			Terms: []TermOcc{{Term: []byte(fmt.Sprintf("%s%d", idPrefix, i)), Freq: 1}}})
		k := r.Range(1, 3)
		for j := 0; j < k; j++ {
			f := FieldInst{Name: fname}
			if r.Chance(px, 10) {
				t := TermOcc{Term: []byte("x"), Freq: 1 + i%7}
				if r.Chance(1, 2) {
					t.Locs = []Loc{{Pos: i % 50, Start: j, End: j + 1}}
				}
				f.Terms = append(f.Terms, t)
				f.Length += t.Freq
			}
			if r.Chance(py, 10) {
				t := TermOcc{Term: []byte("y"), Freq: 1}
				f.Terms = append(f.Terms, t)
				f.Length++
			}
			d = append(d, f)
		}
		docs[i] = d
	}
	return docs
}

func adaptiveN(r *Rng) int {
	switch r.Intn(4) {
	case 0:
		return r.Range(520, 700)
	case 1:
		return r.Range(1020, 1130)
	case 2:
		return r.Range(2040, 2200)
	default:
		return r.Range(1100, 2300)
	}
}

func (cb *caseBuilder) adaptiveQueries(sg int) {
	ss := itoa(sg)
	n := cb.n[sg]
	cb.q("count", ss)
	for _, t := range []string{"78", "79", "7a"} {
		cb.q("iter", ss, "74", t, "~", "111", "w")
		cb.q("iter", ss, "74", t, "~", "110", "a"+itoa(n/2), "n", "n", "a"+itoa(n/2+n/4), "w")
	}
	cb.q("dict", ss, "74", "~", "~", "any")
	cb.q("stats", ss, "74")
	e := cb.genExcept(n)
	cb.q("iter", ss, "74", "78", e, "111", "n", "a"+itoa(n/3), "n", "a"+itoa(n/2+1), "n", "n", "a"+itoa(n-3), "w")
	for _, d := range cb.sampleDocs(n, 12) {
		cb.q("stored", ss, itoa(d), "-1")
	}
}

func genAdaptiveBuild(prop string, seed uint64, count int) []genOut {
	var out []genOut
	for i := 0; i < count; i++ {
		r := NewRng(seed, prop+"-adaptive", uint64(i))
		cb := newCaseBuilder(caseID(prop+"ad", seed, i), r)
		cb.u.fields = [][]byte{[]byte("_id"), []byte("t")}
		docs := cb.adaptiveBatch(adaptiveN(r), "d")
		api := "pub"
		if r.Chance(1, 3) {
			api = "hook"
		}
		sg := cb.addBuild(docs, 1025, api)
		cb.adaptiveQueries(sg)
		out = append(out, genOut{cb.c, true, "adaptive"})
	}
	return out
}

func genAdaptiveMerge(prop string, seed uint64, count int, withRebuild bool) []genOut {
	var out []genOut
	for i := 0; i < count; i++ {
		r := NewRng(seed, prop+"-adaptive-merge", uint64(i))
		cb := newCaseBuilder(caseID(prop+"adm", seed, i), r)
		cb.u.fields = [][]byte{[]byte("_id"), []byte("t")}
		k := r.Range(1, 2)
		// every other case: deletions take a term's cardinality across a multiple of 1024
		crossing := i%2 == 0
		var ins []MergeIn
		for j := 0; j < k; j++ {
			n := adaptiveN(r)
			if crossing {
				n = 1024*r.Range(1, 2) + r.Range(1, 150)
			}
			if k == 2 {
				n = n/2 + 10
			}
			docs := cb.adaptiveBatch(n, fmt.Sprintf("s%d-", j))
			if crossing {
				// the term x in every document
				for d := range docs {
					docs[d] = append(docs[d], FieldInst{Name: []byte("t"), Length: 1, Terms: []TermOcc{{Term: []byte("x"), Freq: 1}}})
				}
			}
			api := "pub"
			if r.Chance(1, 3) {
				api = "hook"
			}
			sg := cb.addBuild(docs, 1025, api)
			// deletions that move a term's cardinality across a multiple of 1024
			var drops []uint32
			p := r.Range(1, 6)
			if crossing {
				p = r.Range(2, 4) // 1/6 .. 1/3 of ~1100 / ~2150 documents: crosses 1024 / 2048
			}
			for d := 0; d < n; d++ {
				if r.Chance(p, 12) {
					drops = append(drops, uint32(d))
				}
			}
			ins = append(ins, MergeIn{Seg: sg, Drops: drops})
		}
		api := "pub"
		if r.Chance(1, 3) {
			api = "hook"
		}
		final := cb.addMerge(ins, 1025, api, bufSize(r))
		cb.adaptiveQueries(final)
		cb.q("docnums", itoa(final))
		if withRebuild {
			rb := cb.addBuild(cb.docs[final], 1025, "hook")
			cb.same(final, rb, "rebuild")
		}
		out = append(out, genOut{cb.c, true, "adaptive-merge"})
	}
	return out
}

// copyPathMerge: segments with identical field lists merged without deletions (the byte-copy path
// of the stored section), with sizes that make the destination's 128-document blocks end inside
// a source block.
func genCopyPath(prop string, seed uint64, count int) []genOut {
	var out []genOut
	for i := 0; i < count; i++ {
		r := NewRng(seed, prop+"-copypath", uint64(i))
		cb := newCaseBuilder(caseID(prop+"cp", seed, i), r)
		cb.u.fields = [][]byte{[]byte("_id"), []byte("a")}
		k := r.Range(2, 4)
		var ins []MergeIn
		for j := 0; j < k; j++ {
			n := []int{100, 60, 29, 130, 1, 127, 200, 70}[r.Intn(8)] + r.Intn(5)
			docs := make([]Doc, n)
			for d := range docs {
				id := []byte(fmt.Sprintf("s%d-%d", j, d))
				docs[d] = Doc{
					{Name: []byte("_id"), Length: 1, Store: true, Value: id, Terms: []TermOcc{{Term: id, Freq: 1}}},
					{Name: []byte("a"), Length: 1, Store: r.Chance(2, 3), Value: randBytes(r, r.Intn(30)), Terms: []TermOcc{{Term: []byte("w"), Freq: 1}}},
				}
			}
			m, api := blockMode(r)
			sg := cb.addBuild(docs, m, api)
			in := MergeIn{Seg: sg, Nil: r.Chance(1, 2)}
			if !in.Nil {
				in.Drops = []uint32{}
				if j == 0 && r.Chance(1, 4) && n > 3 {
					in.Drops = []uint32{0, 3}
				}
			}
			ins = append(ins, in)
		}
		m, api := mergeMode(r)
		final := cb.addMerge(ins, m, api, bufSize(r))
		n := cb.n[final]
		for d := 0; d < n; d++ {
			cb.q("stored", itoa(final), itoa(d), "-1")
		}
		cb.q("docnums", itoa(final))
		cb.q("count", itoa(final))
		out = append(out, genOut{cb.c, true, "copypath"})
	}
	return out
}

// ghostFields: a zero-document segment that still LISTS fields (the output of a merge in which
// nothing survived keeps the union of its inputs' field names) merged again together with live
// segments whose field lists agree with each other.  The ghost's names take part in the merged
// field numbering although it has no documents: whether the stored section may be byte-copied,
// and under which ids, depends on it.
func genGhostFields(prop string, seed uint64, count int) []genOut {
	var out []genOut
	pool := [][]byte{[]byte("!x"), []byte("a"), []byte("author"), []byte("body"), []byte("m"), []byte("title"), []byte("zz"), {0x00, 'q'}}
	for i := 0; i < count; i++ {
		r := NewRng(seed, prop+"-ghost", uint64(i))
		cb := newCaseBuilder(caseID(prop+"gh", seed, i), r)
		perm := permute(r, len(pool))
		nl := r.Range(1, 3)
		live := [][]byte{[]byte("_id")}
		for _, x := range perm[:nl] {
			live = append(live, pool[x])
		}
		ghost := [][]byte{[]byte("_id")}
		for _, x := range perm[nl : nl+r.Range(1, 3)] {
			ghost = append(ghost, pool[x])
		}
		if r.Chance(1, 3) {
			ghost = append(ghost, live[1:]...) // the ghost may also share names
		}
		cb.u.fields = append(append([][]byte{}, live...), ghost[1:]...)
		mkDocs := func(fields [][]byte, n int, pfx string) []Doc {
			docs := make([]Doc, n)
			for d := range docs {
				id := []byte(fmt.Sprintf("%s%d", pfx, d))
				doc := Doc{{Name: []byte("_id"), Length: 1, Store: true, Value: id, Terms: []TermOcc{{Term: id, Freq: 1}}}}
				for _, f := range fields[1:] {
					// every document carries every field, so the field lists of the live segments agree
					doc = append(doc, FieldInst{Name: f, Length: 1, Store: r.Chance(3, 4), Value: append([]byte(string(f)+"="), randBytes(r, r.Intn(6))...),
						Terms: []TermOcc{{Term: []byte("w"), Freq: 1}}})
				}
				docs[d] = doc
			}
			return docs
		}
		m0, api0 := blockMode(r)
		gsrc := cb.addBuild(mkDocs(ghost, r.Range(1, 4), "g"), m0, api0)
		var all []uint32
		for d := 0; d < cb.n[gsrc]; d++ {
			all = append(all, uint32(d))
		}
		m1, api1 := mergeMode(r)
		g := cb.addMerge([]MergeIn{{Seg: gsrc, Drops: all}}, m1, api1, bufSize(r))
		if r.Chance(1, 3) {
			g = cb.addLoad(g, []string{"mem", "file"}[r.Intn(2)])
		}
		k := r.Range(1, 3)
		var ins []MergeIn
		for j := 0; j < k; j++ {
			m, api := blockMode(r)
			n := r.Range(1, 6)
			if r.Chance(1, 5) {
				n = r.Range(120, 140)
			}
			sg := cb.addBuild(mkDocs(live, n, fmt.Sprintf("s%d-", j)), m, api)
			in := MergeIn{Seg: sg, Nil: r.Chance(1, 2)}
			if !in.Nil {
				in.Drops = []uint32{}
				if r.Chance(1, 4) {
					in.Drops = []uint32{0}
				}
			}
			ins = append(ins, in)
		}
		// the ghost at any position but (mostly) not the first
		pos := r.Range(1, len(ins))
		if r.Chance(1, 6) {
			pos = 0
		}
		gin := MergeIn{Seg: g, Nil: r.Chance(1, 2)}
		if !gin.Nil {
			gin.Drops = []uint32{}
		}
		ins = append(ins[:pos], append([]MergeIn{gin}, ins[pos:]...)...)
		m, api := mergeMode(r)
		final := cb.addMerge(ins, m, api, bufSize(r))
		mseg := final
		if r.Chance(1, 3) {
			final = cb.addLoad(final, []string{"mem", "file"}[r.Intn(2)])
		}
		n := cb.n[final]
		for d := 0; d < n && d < 150; d++ {
			cb.q("stored", itoa(final), itoa(d), "-1")
		}
		cb.q("docnums", itoa(mseg))
		cb.q("count", itoa(final))
		cb.q("fields", itoa(final))
		for _, f := range cb.u.fields {
			cb.q("dict", itoa(final), hx(f), "~", "~", "any")
			cb.q("stats", itoa(final), hx(f))
		}
		out = append(out, genOut{cb.c, n > 0, "ghost-fields"})
	}
	return out
}

// sparseDV: more than 2048 documents in which a doc-value field occurs only in a few clusters, so
// that whole 1024-document doc-value chunks are empty between non-empty ones; built, and merged
// with a renumbering (deletions and/or a preceding segment) that moves a cluster across a chunk
// boundary of the output.
func genSparseDV(prop string, seed uint64, count int, withMerge, withRebuild bool) []genOut {
	var out []genOut
	for i := 0; i < count; i++ {
		r := NewRng(seed, prop+"-sparsedv", uint64(i))
		cb := newCaseBuilder(caseID(prop+"sdv", seed, i), r)
		tag := []byte("tag")
		cb.u.fields = [][]byte{[]byte("_id"), tag}
		cb.u.dvOK = map[string]bool{"tag": true}
		cb.u.dvAll = true
		n := []int{2100, 2600, 3200, 3300, 4200}[r.Intn(5)] + r.Intn(40)
		// clusters: (start, length)
		var cl [][2]int
		starts := []int{0, 1000 + r.Intn(48), 1024 + r.Intn(30), 2040 + r.Intn(16), 2048 + r.Intn(60), 3060 + r.Intn(30), 3072 + r.Intn(40), 4090 + r.Intn(20)}
		for _, s := range starts {
			if s < n && r.Chance(1, 2) {
				cl = append(cl, [2]int{s, r.Range(1, 30)})
			}
		}
		if len(cl) == 0 {
			cl = append(cl, [2]int{n - 12, 10})
		}
		has := make([]bool, n)
		for _, c := range cl {
			for d := c[0]; d < c[0]+c[1] && d < n; d++ {
				has[d] = true
			}
		}
		withID := r.Chance(1, 2)
		docs := make([]Doc, n)
		for d := range docs {
			var doc Doc
			if withID || has[d] {
				id := []byte(fmt.Sprintf("d%d", d))
				doc = append(doc, FieldInst{Name: []byte("_id"), Length: 1, Terms: []TermOcc{{Term: id, Freq: 1}}})
			}
			if has[d] {
				doc = append(doc, FieldInst{Name: tag, Length: 1, DV: true, Terms: []TermOcc{{Term: []byte(fmt.Sprintf("b%d", d)), Freq: 1}}})
				if r.Chance(1, 4) {
					doc = append(doc, FieldInst{Name: tag, Length: 1, DV: true, Terms: []TermOcc{{Term: []byte("common"), Freq: 1}}})
				}
			}
			docs[d] = doc
		}
		m, api := chunkMode(r)
		sg := cb.addBuild(docs, m, api)
		final := sg
		mseg := -1
		if withMerge {
			var ins []MergeIn
			if r.Chance(1, 3) {
				// a preceding segment shifts everything
				pn := r.Range(1, 40)
				pre := make([]Doc, pn)
				for d := range pre {
					pre[d] = Doc{{Name: []byte("_id"), Length: 1, Terms: []TermOcc{{Term: []byte(fmt.Sprintf("p%d", d)), Freq: 1}}}}
					if r.Chance(1, 2) {
						pre[d] = append(pre[d], FieldInst{Name: tag, Length: 1, DV: true, Terms: []TermOcc{{Term: []byte("pre"), Freq: 1}}})
					}
				}
				pm, papi := chunkMode(r)
				ins = append(ins, MergeIn{Seg: cb.addBuild(pre, pm, papi), Nil: true})
			}
			var drops []uint32
			switch r.Intn(3) {
			case 0: // a few leading documents
				for d := 0; d < r.Range(1, 30); d++ {
					drops = append(drops, uint32(d))
				}
			case 1: // scattered
				for d := 0; d < n; d++ {
					if r.Chance(1, 200) {
						drops = append(drops, uint32(d))
					}
				}
			default: // the head of one cluster
				c := cl[r.Intn(len(cl))]
				for d := c[0]; d < c[0]+c[1]/2+1 && d < n; d++ {
					drops = append(drops, uint32(d))
				}
			}
			if drops == nil {
				drops = []uint32{}
			}
			ins = append(ins, MergeIn{Seg: sg, Drops: drops})
			mm, mapi := mergeMode(r)
			final = cb.addMerge(ins, mm, mapi, bufSize(r))
			mseg = final
		}
		if r.Chance(1, 4) {
			final = cb.addLoad(final, []string{"mem", "file"}[r.Intn(2)])
		}
		nf := cb.n[final]
		// every document that has a value, plus the chunk edges, in several orders
		var want []int
		for d, doc := range cb.docs[final] {
			for _, f := range doc {
				if string(f.Name) == "tag" {
					want = append(want, d)
					break
				}
			}
		}
		for _, e := range []int{0, 1023, 1024, 2047, 2048, 3071, 3072, nf - 1} {
			if e >= 0 && e < nf {
				want = append(want, e)
			}
		}
		sort.Ints(want)
		if len(want) > 400 {
			want = want[:400]
		}
		cb.q("dv", itoa(final), hx(tag), intList(want))
		rev := append([]int(nil), want...)
		sort.Sort(sort.Reverse(sort.IntSlice(rev)))
		cb.q("dv", itoa(final), hx(tag), intList(rev))
		var rnd []int
		for k := 0; k < 60; k++ {
			rnd = append(rnd, want[r.Intn(len(want))])
		}
		cb.q("dv", itoa(final), hx(tag)+","+hx([]byte("_id")), intList(rnd))
		cb.q("count", itoa(final))
		if withMerge {
			cb.q("docnums", itoa(mseg))
			if withRebuild {
				rb := cb.addBuild(cb.docs[final], m, "hook")
				cb.same(final, rb, "rebuild")
			}
		}
		out = append(out, genOut{cb.c, true, "sparse-dv"})
	}
	return out
}

// upsertMerge: the update pattern DocsMatchingTerms exists for.  Two to four segments whose
// documents take their `_id` (a unique term without locations, frequency 1) from a small pool, so
// ids collide across segments; for every id present more than once all occurrences but one are
// deleted (the older or the newer one survives, at random); merged; then the ids are looked up.
// This produces 1-hit candidates whose other occurrences are all deleted, in earlier and in later
// input segments, and survivors at merged document number 0.
func genUpsertMerge(prop string, seed uint64, count int) []genOut {
	var out []genOut
	for i := 0; i < count; i++ {
		r := NewRng(seed, prop+"-upsert", uint64(i))
		cb := newCaseBuilder(caseID(prop+"up", seed, i), r)
		body := []byte("body")
		cb.u.fields = [][]byte{[]byte("_id"), body}
		npool := r.Range(2, 6)
		k := r.Range(2, 4)
		type occ struct{ seg, doc int }
		where := map[int][]occ{}
		var segs []int
		for j := 0; j < k; j++ {
			n := r.Range(1, 4)
			perm := permute(r, npool)
			if n > npool {
				n = npool
			}
			docs := make([]Doc, n)
			for d := 0; d < n; d++ {
				id := []byte(fmt.Sprintf("id%d", perm[d]))
				doc := Doc{{Name: []byte("_id"), Length: 1, Store: true, Value: id, Terms: []TermOcc{{Term: id, Freq: 1}}}}
				if r.Chance(2, 3) {
					// shared body terms, without locations (1-hit material) or with
					t := TermOcc{Term: []byte([]string{"shared", "delta", "x"}[r.Intn(3)]), Freq: 1}
					if r.Chance(1, 3) {
						t.Locs = []Loc{{Pos: 1, Start: 0, End: 3}}
					}
					if r.Chance(1, 4) {
						t.Freq = 2
					}
					doc = append(doc, FieldInst{Name: body, Length: t.Freq, Terms: []TermOcc{t}})
				}
				docs[d] = doc
				where[perm[d]] = append(where[perm[d]], occ{j, d})
			}
			m, api := blockMode(r)
			segs = append(segs, cb.addBuild(docs, m, api))
		}
		drops := make([][]uint32, k)
		for _, occs := range where {
			if len(occs) < 2 {
				if r.Chance(1, 6) {
					drops[occs[0].seg] = append(drops[occs[0].seg], uint32(occs[0].doc))
				}
				continue
			}
			keep := r.Intn(len(occs))
			if r.Chance(1, 8) {
				keep = -1 // the document is deleted altogether
			}
			for x, o := range occs {
				if x != keep {
					drops[o.seg] = append(drops[o.seg], uint32(o.doc))
				}
			}
		}
		var ins []MergeIn
		for j := 0; j < k; j++ {
			in := MergeIn{Seg: segs[j], Drops: drops[j]}
			if in.Drops == nil {
				if r.Chance(1, 2) {
					in.Nil = true
				} else {
					in.Drops = []uint32{}
				}
			} else {
				sort.Slice(in.Drops, func(a, b int) bool { return in.Drops[a] < in.Drops[b] })
			}
			ins = append(ins, in)
		}
		m, api := mergeMode(r)
		final := cb.addMerge(ins, m, api, bufSize(r))
		mseg := final
		if r.Chance(1, 3) {
			final = cb.addLoad(final, []string{"mem", "file"}[r.Intn(2)])
		}
		fs := itoa(final)
		var all []string
		for p := 0; p < npool; p++ {
			pair := hx([]byte("_id")) + ":" + hx([]byte(fmt.Sprintf("id%d", p)))
			cb.q("match", fs, pair)
			all = append(all, pair)
		}
		for _, t := range []string{"shared", "delta", "x"} {
			cb.q("match", fs, hx(body)+":"+hx([]byte(t)))
			cb.q("iter", fs, hx(body), hx([]byte(t)), "~", "111", "w")
			cb.q("contains", fs, hx(body), hx([]byte(t)))
		}
		cb.q(append([]string{"match", fs}, all...)...)
		cb.q("match", fs, all[0], hx([]byte("nosuch"))+":78", all[len(all)-1], hx(body)+":"+hx([]byte("shared")), hx([]byte("nosuch"))+":79", hx(body)+":"+hx([]byte("delta")))
		cb.q("dict", fs, hx([]byte("_id")), "~", "~", "any")
		cb.q("dict", fs, hx(body), "~", "~", "any")
		cb.q("stats", fs, hx(body))
		cb.q("count", fs)
		cb.q("docnums", itoa(mseg))
		for d := 0; d < cb.n[final]; d++ {
			cb.q("stored", fs, itoa(d), "-1")
		}
		out = append(out, genOut{cb.c, cb.n[final] > 0, "upsert-merge"})
	}
	return out
}

// adaptiveAssoc: bracketings of merges in the adaptive chunk mode whose deletions take a term's
// cardinality across a multiple of 1024 at one step but not at another: flat merge with the
// deletions, deletions applied in an inner single-segment merge, deletions translated through an
// inner merge of everything.
func genAdaptiveAssoc(prop string, seed uint64, count int) []genOut {
	var out []genOut
	for i := 0; i < count; i++ {
		r := NewRng(seed, prop+"-adaptive-assoc", uint64(i))
		cb := newCaseBuilder(caseID(prop+"aa", seed, i), r)
		cb.u.fields = [][]byte{[]byte("_id"), []byte("t")}
		n1, n2 := r.Range(600, 760), r.Range(500, 700)
		mk := func(n int, pfx string) []Doc {
			docs := cb.adaptiveBatch(n, pfx)
			for d := range docs {
				docs[d] = append(docs[d], FieldInst{Name: []byte("t"), Length: 1, Terms: []TermOcc{{Term: []byte("x"), Freq: 1}}})
			}
			return docs
		}
		s1 := cb.addBuild(mk(n1, "a"), 1025, "pub")
		s2 := cb.addBuild(mk(n2, "b"), 1025, "pub")
		// enough deletions in s1 to bring n1+n2 (>= 1100) below 1024
		need := n1 + n2 - 1024 + r.Range(5, 60)
		if need > n1 {
			need = n1
		}
		var d1 []uint32
		for _, x := range permute(r, n1)[:need] {
			d1 = append(d1, uint32(x))
		}
		sort.Slice(d1, func(a, b int) bool { return d1[a] < d1[b] })
		flat := cb.addMerge([]MergeIn{{Seg: s1, Drops: d1}, {Seg: s2, Nil: true}}, 1025, "pub", bufSize(r))
		inner1 := cb.addMerge([]MergeIn{{Seg: s1, Drops: d1}}, 1025, "pub", bufSize(r))
		v1 := cb.addMerge([]MergeIn{{Seg: inner1, Nil: true}, {Seg: s2, Nil: true}}, 1025, "pub", bufSize(r))
		all := cb.addMerge([]MergeIn{{Seg: s1, Nil: true}, {Seg: s2, Nil: true}}, 1025, "pub", bufSize(r))
		v2 := cb.addMerge([]MergeIn{{Seg: all, Drops: d1}}, 1025, "pub", bufSize(r)) // s1 comes first: its numbers are unchanged
		cb.adaptiveQueries(flat)
		cb.same(flat, v1, "assoc")
		cb.same(flat, v2, "assoc")
		out = append(out, genOut{cb.c, true, "adaptive-assoc"})
	}
	return out
}
