package main

import (
	"fmt"
	"go/ast"
	"go/types"
	"strings"
)

// genErrFlow: for every function of the package whose last result is an error, the ordered list of
// error-flow events:
//
//	F:<callee>   a call with an error result that is bound to a variable or returned directly
//	D:<callee>   a call whose error result is discarded (`_ =`, expression statement, defer)
//	R:err R:nil  a return (whether the error result is the literal nil)
//	B            break / continue / goto
//	{ }          a conditional or loop body (empty ones dropped); `{:err` = body of `if <error> != nil`
//
// The Lean side (Bridge/ErrFlow) computes, from these lists, every F that is not IMMEDIATELY
// followed by its check `{ R:err }` (or returned directly), and pins that list of exceptions.
func (c *ctx) genErrFlow() {
	var items []string
	for _, k := range c.sortedFuncKeys() {
		fd := c.funcs[k]
		res := fd.Type.Results
		if res == nil || len(res.List) == 0 {
			continue
		}
		last := res.List[len(res.List)-1]
		if t := c.info.TypeOf(last.Type); t == nil || t.String() != "error" {
			continue
		}
		var ev []string
		isErrType := func(t types.Type) bool { return t != nil && t.String() == "error" }
		errIndex := func(call *ast.CallExpr) int {
			t := c.info.TypeOf(call)
			if tup, ok := t.(*types.Tuple); ok {
				if tup.Len() > 0 && isErrType(tup.At(tup.Len()-1).Type()) {
					return tup.Len() - 1
				}
				return -1
			}
			if isErrType(t) {
				return 0
			}
			return -1
		}
		callee := func(call *ast.CallExpr) string {
			switch f := call.Fun.(type) {
			case *ast.Ident:
				return f.Name
			case *ast.SelectorExpr:
				return f.Sel.Name
			}
			return "?"
		}
		// calls nested in an expression (arguments etc.) whose error cannot be bound: none in practice,
		// reported as D so that they show up
		var nested func(e ast.Expr, skip *ast.CallExpr)
		nested = func(e ast.Expr, skip *ast.CallExpr) {
			ast.Inspect(e, func(n ast.Node) bool {
				if _, ok := n.(*ast.FuncLit); ok {
					return false
				}
				if call, ok := n.(*ast.CallExpr); ok && call != skip && errIndex(call) >= 0 {
					ev = append(ev, "D:"+callee(call))
				}
				return true
			})
		}
		var walkStmt func(s ast.Stmt)
		walkBlock := func(b *ast.BlockStmt) {
			if b == nil {
				return
			}
			for _, s := range b.List {
				walkStmt(s)
			}
		}
		walkStmt = func(s ast.Stmt) {
			switch x := s.(type) {
			case *ast.AssignStmt:
				if len(x.Rhs) == 1 {
					if call, ok := x.Rhs[0].(*ast.CallExpr); ok {
						if ei := errIndex(call); ei >= 0 {
							for _, a := range call.Args {
								nested(a, nil)
							}
							bound := false
							if ei < len(x.Lhs) {
								if id, ok := x.Lhs[ei].(*ast.Ident); !ok || id.Name != "_" {
									bound = true
								}
							}
							if bound {
								ev = append(ev, "F:"+callee(call))
							} else {
								ev = append(ev, "D:"+callee(call))
							}
							return
						}
					}
				}
				for _, r := range x.Rhs {
					nested(r, nil)
				}
			case *ast.ExprStmt:
				if call, ok := x.X.(*ast.CallExpr); ok && errIndex(call) >= 0 {
					ev = append(ev, "D:"+callee(call))
					return
				}
				nested(x.X, nil)
			case *ast.DeferStmt:
				if errIndex(x.Call) >= 0 {
					ev = append(ev, "D:"+callee(x.Call))
				}
			case *ast.GoStmt:
				if errIndex(x.Call) >= 0 {
					ev = append(ev, "D:"+callee(x.Call))
				}
			case *ast.DeclStmt:
				ast.Inspect(x, func(n ast.Node) bool {
					if vs, ok := n.(*ast.ValueSpec); ok {
						for _, v := range vs.Values {
							if call, ok := v.(*ast.CallExpr); ok && errIndex(call) >= 0 {
								ev = append(ev, "F:"+callee(call))
							} else {
								nested(v, nil)
							}
						}
						return false
					}
					return true
				})
			case *ast.ReturnStmt:
				direct := false
				for _, r := range x.Results {
					if call, ok := r.(*ast.CallExpr); ok && errIndex(call) >= 0 {
						ev = append(ev, "F:"+callee(call))
						direct = true
					} else {
						nested(r, nil)
					}
				}
				kind := "R:err"
				if n := len(x.Results); n > 0 && !direct {
					if id, ok := x.Results[n-1].(*ast.Ident); ok && id.Name == "nil" {
						kind = "R:nil"
					}
				}
				ev = append(ev, kind)
			case *ast.BranchStmt:
				ev = append(ev, "B")
			case *ast.IfStmt:
				if x.Init != nil {
					walkStmt(x.Init)
				}
				nested(x.Cond, nil)
				// `{:err` = the body of `if <error variable> != nil`
				open := "{"
				if be, ok := x.Cond.(*ast.BinaryExpr); ok && be.Op.String() == "!=" {
					if id, ok := be.Y.(*ast.Ident); ok && id.Name == "nil" && isErrType(c.info.TypeOf(be.X)) {
						open = "{:err"
					}
				}
				ev = append(ev, open)
				walkBlock(x.Body)
				ev = append(ev, "}")
				if x.Else != nil {
					ev = append(ev, "{")
					switch e := x.Else.(type) {
					case *ast.BlockStmt:
						walkBlock(e)
					default:
						walkStmt(e)
					}
					ev = append(ev, "}")
				}
			case *ast.ForStmt:
				if x.Init != nil {
					walkStmt(x.Init)
				}
				ev = append(ev, "{")
				walkBlock(x.Body)
				if x.Post != nil {
					walkStmt(x.Post)
				}
				ev = append(ev, "}")
			case *ast.RangeStmt:
				ev = append(ev, "{")
				walkBlock(x.Body)
				ev = append(ev, "}")
			case *ast.BlockStmt:
				walkBlock(x)
			case *ast.SwitchStmt:
				if x.Init != nil {
					walkStmt(x.Init)
				}
				ev = append(ev, "{")
				walkBlock(x.Body)
				ev = append(ev, "}")
			case *ast.TypeSwitchStmt:
				ev = append(ev, "{")
				walkBlock(x.Body)
				ev = append(ev, "}")
			case *ast.SelectStmt:
				ev = append(ev, "{")
				walkBlock(x.Body)
				ev = append(ev, "}")
			case *ast.CaseClause:
				ev = append(ev, "{")
				for _, s := range x.Body {
					walkStmt(s)
				}
				ev = append(ev, "}")
			case *ast.CommClause:
				ev = append(ev, "{")
				for _, s := range x.Body {
					walkStmt(s)
				}
				ev = append(ev, "}")
			case *ast.LabeledStmt:
				walkStmt(x.Stmt)
			}
		}
		walkBlock(fd.Body)
		for changed := true; changed; {
			changed = false
			for i := 0; i+1 < len(ev); i++ {
				if strings.HasPrefix(ev[i], "{") && ev[i+1] == "}" {
					ev = append(ev[:i], ev[i+2:]...)
					changed = true
					break
				}
			}
		}
		var q []string
		for _, e := range ev {
			kind, name := e, ""
			if i := strings.Index(e, ":"); i > 0 {
				kind, name = e[:i], e[i+1:]
			}
			q = append(q, fmt.Sprintf("(%s, %s)", leanStr(kind), leanStr(name)))
		}
		items = append(items, fmt.Sprintf("(%s, [%s])", leanStr(k), strings.Join(q, ", ")))
	}
	var sb strings.Builder
	sb.WriteString("namespace Ice.Gen.ErrFlow\n\n")
	fmt.Fprintf(&sb, "/-- error-flow events of every function that returns an error, in source order -/\ndef flows : List (String × List (String × String)) := [%s]\n\n", strings.Join(items, ",\n  "))
	sb.WriteString("end Ice.Gen.ErrFlow\n")
	c.write("ErrFlow.lean", sb.String())
}
