package main

import (
	"fmt"
	"go/ast"
	"go/types"
	"sort"
	"strings"
)

// genReuse: the inventory of memory-reuse sites - where stale state and aliasing come from
// (C09, C13, C14, C15):
//   - every re-slice to length zero `e[:0]` (function, expression): a buffer kept for reuse;
//   - every sync.Pool Get / Put (function, pool variable, operation), with multiplicity.
//
// Sorted; re-slices are de-duplicated per function, pool operations are not (a second Put counts).
func (c *ctx) genReuse() {
	var reslices, pools []string
	seen := map[string]bool{}
	// expressions are rendered with variables replaced by their types, so renaming a local or a
	// receiver changes nothing
	var norm func(e ast.Expr) string
	norm = func(e ast.Expr) string {
		switch x := e.(type) {
		case *ast.Ident:
			if v, ok := c.info.Uses[x].(*types.Var); ok && !v.IsField() {
				return types.TypeString(v.Type(), func(*types.Package) string { return "" })
			}
			return x.Name
		case *ast.SelectorExpr:
			return norm(x.X) + "." + x.Sel.Name
		case *ast.IndexExpr:
			return norm(x.X) + "[]"
		case *ast.ParenExpr:
			return norm(x.X)
		case *ast.StarExpr:
			return norm(x.X)
		}
		return types.ExprString(e)
	}
	for _, k := range c.sortedFuncKeys() {
		fd := c.funcs[k]
		ast.Inspect(fd.Body, func(n ast.Node) bool {
			switch x := n.(type) {
			case *ast.SliceExpr:
				if x.Low == nil && x.High != nil && !x.Slice3 {
					if bl, ok := x.High.(*ast.BasicLit); ok && bl.Value == "0" {
						if _, ok := c.info.TypeOf(x.X).Underlying().(*types.Slice); ok {
							key := k + "\x00" + norm(x.X)
							if !seen[key] {
								seen[key] = true
								reslices = append(reslices, fmt.Sprintf("(%s, %s)", leanStr(k), leanStr(norm(x.X))))
							}
						}
					}
				}
			case *ast.CallExpr:
				if sel, ok := x.Fun.(*ast.SelectorExpr); ok && (sel.Sel.Name == "Get" || sel.Sel.Name == "Put") {
					if t := c.info.TypeOf(sel.X); t != nil && strings.HasSuffix(strings.TrimPrefix(t.String(), "*"), "sync.Pool") {
						pools = append(pools, fmt.Sprintf("(%s, %s, %s)", leanStr(k), leanStr(types.ExprString(sel.X)), leanStr(sel.Sel.Name)))
					}
				}
			}
			return true
		})
	}
	sort.Strings(reslices)
	sort.Strings(pools)
	var sb strings.Builder
	sb.WriteString("namespace Ice.Gen.Reuse\n\n")
	fmt.Fprintf(&sb, "/-- buffers re-sliced to length zero for reuse: (function, expression) -/\ndef reslices : List (String × String) := [%s]\n\n", strings.Join(reslices, ",\n  "))
	fmt.Fprintf(&sb, "/-- sync.Pool operations: (function, pool, Get|Put), one entry per call site -/\ndef poolOps : List (String × String × String) := [%s]\n\n", strings.Join(pools, ",\n  "))
	sb.WriteString("end Ice.Gen.Reuse\n")
	c.write("Reuse.lean", sb.String())
}
