package main

import (
	"fmt"
	"go/ast"
	"go/types"
	"strings"
)

// genAppends: for functions that build PARALLEL slices (one entry per selected element in each of
// several slices, later indexed by the same position), every `x = append(x, ...)` with the stack
// of enclosing conditions, in source order.  The bridge pins that all of them sit under the same
// condition - an append hoisted out of it shifts one slice against the others.
func (c *ctx) genAppends() {
	fns := []string{"setupActiveForField"}
	var items []string
	for _, k := range fns {
		fd := c.funcs[k]
		if fd == nil {
			items = append(items, fmt.Sprintf("(%s, [(%s, [])])", leanStr(k), leanStr("<function not found>")))
			continue
		}
		var entries []string
		var walk func(s ast.Stmt, conds []string)
		walkBlock := func(b *ast.BlockStmt, conds []string) {
			if b == nil {
				return
			}
			for _, s := range b.List {
				walk(s, conds)
			}
		}
		walk = func(s ast.Stmt, conds []string) {
			switch x := s.(type) {
			case *ast.AssignStmt:
				if len(x.Lhs) == 1 && len(x.Rhs) == 1 {
					if call, ok := x.Rhs[0].(*ast.CallExpr); ok {
						if id, ok := call.Fun.(*ast.Ident); ok && id.Name == "append" {
							var q []string
							for _, cnd := range conds {
								q = append(q, leanStr(cnd))
							}
							entries = append(entries, fmt.Sprintf("(%s, [%s])", leanStr(types.ExprString(x.Lhs[0])), strings.Join(q, ", ")))
						}
					}
				}
			case *ast.IfStmt:
				cond := types.ExprString(x.Cond)
				walkBlock(x.Body, append(append([]string{}, conds...), cond))
				if x.Else != nil {
					neg := append(append([]string{}, conds...), "!("+cond+")")
					switch e := x.Else.(type) {
					case *ast.BlockStmt:
						walkBlock(e, neg)
					default:
						walk(e, neg)
					}
				}
			case *ast.ForStmt:
				walkBlock(x.Body, conds)
			case *ast.RangeStmt:
				walkBlock(x.Body, conds)
			case *ast.BlockStmt:
				walkBlock(x, conds)
			}
		}
		walkBlock(fd.Body, nil)
		items = append(items, fmt.Sprintf("(%s, [%s])", leanStr(k), strings.Join(entries, ", ")))
	}
	var sb strings.Builder
	sb.WriteString("namespace Ice.Gen.Appends\n\n")
	fmt.Fprintf(&sb, "/-- appends of the parallel-slice builders: (function, [(slice, enclosing conditions outermost first)]) -/\ndef appends : List (String × List (String × List String)) := [%s]\n\n", strings.Join(items, ",\n  "))
	sb.WriteString("end Ice.Gen.Appends\n")
	c.write("Appends.lean", sb.String())
}
