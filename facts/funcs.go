package main

import (
	"fmt"
	"go/ast"
	"go/token"
	"go/types"
	"sort"
	"strings"
)

// genFuncs renders loop-free integer functions statement by statement into Lean `Id.run do`
// blocks over Nat with explicit wrap-around (w64/w32 after every + - * << and on conversions).
// A function that leaves the accepted subset makes icefacts fail loudly.

var funcWhitelist = []string{
	"getChunkSize", "encodeFreqHasLocs", "decodeFreqHasLocs", "fSTValEncode1Hit",
	"fSTValDecode1Hit", "under32Bits",
}

type ftr struct {
	c      *ctx
	params []string          // extra parameters introduced by abstraction, in order
	pset   map[string]bool   // ... and the declared ones
	named  []string          // named results (for a bare return)
	fname  string
	nloops int
	helpers []string
	errRes bool              // last result is `error`
	nres   int               // number of non-error results
	fail   string
}

func (t *ftr) bad(format string, a ...interface{}) string {
	if t.fail == "" {
		t.fail = fmt.Sprintf(format, a...)
	}
	return "0"
}

func sanitize(s string) string {
	var sb strings.Builder
	for _, r := range s {
		switch {
		case r >= 'a' && r <= 'z', r >= 'A' && r <= 'Z', r >= '0' && r <= '9', r == '_':
			sb.WriteRune(r)
		case r == '.':
			sb.WriteRune('_')
		}
	}
	return sb.String()
}

func (t *ftr) width(e ast.Expr) string {
	tp := t.c.info.TypeOf(e)
	if tp == nil {
		return ""
	}
	if b, ok := tp.Underlying().(*types.Basic); ok {
		switch b.Kind() {
		case types.Uint64, types.Uint, types.Uintptr:
			return "w64"
		case types.Uint32:
			return "w32"
		case types.Uint16:
			return "w16"
		case types.Uint8:
			return "w8"
		case types.Int, types.Int64, types.UntypedInt:
			return "" // signed: values stay far below 2^63 (documented assumption)
		}
	}
	return ""
}

func wrap(w, s string) string {
	if w == "" {
		return "(" + s + ")"
	}
	return "(" + w + " (" + s + "))"
}

func (t *ftr) abstract(e ast.Expr) string {
	name := sanitize(types.ExprString(e))
	if !t.pset[name] {
		t.pset[name] = true
		t.params = append(t.params, name)
	}
	return name
}

func (t *ftr) ex(e ast.Expr) string {
	switch x := e.(type) {
	case *ast.ParenExpr:
		return t.ex(x.X)
	case *ast.BasicLit:
		if x.Kind == token.INT {
			if strings.HasPrefix(x.Value, "0x") || strings.HasPrefix(x.Value, "0X") {
				return x.Value
			}
			return x.Value
		}
		return t.bad("literal %s", x.Value)
	case *ast.Ident:
		switch x.Name {
		case "true", "false":
			return x.Name
		}
		if obj := t.c.info.Uses[x]; obj != nil {
			if _, ok := obj.(*types.Const); ok && obj.Pkg() == t.c.pkg.Types {
				return "Consts." + leanIdent(x.Name)
			}
			if _, ok := obj.(*types.Var); ok && obj.Parent() == t.c.pkg.Types.Scope() {
				return "Consts." + leanIdent(x.Name)
			}
		}
		return x.Name
	case *ast.SelectorExpr, *ast.StarExpr:
		return t.abstract(e)
	case *ast.UnaryExpr:
		if x.Op == token.NOT {
			return "(!" + t.ex(x.X) + ")"
		}
		return t.bad("unary %s", x.Op)
	case *ast.BinaryExpr:
		a, b := t.ex(x.X), t.ex(x.Y)
		w := t.width(e)
		switch x.Op {
		case token.ADD:
			return wrap(w, a+" + "+b)
		case token.SUB:
			if w == "w64" {
				return wrap(w, a+" + 2^64 - "+b)
			}
			if w == "w32" {
				return wrap(w, a+" + 2^32 - "+b)
			}
			return wrap("", a+" - "+b)
		case token.MUL:
			return wrap(w, a+" * "+b)
		case token.QUO:
			return "(" + a + " / " + b + ")"
		case token.REM:
			return "(" + a + " % " + b + ")"
		case token.SHL:
			return wrap(w, a+" <<< "+b)
		case token.SHR:
			return "(" + a + " >>> " + b + ")"
		case token.AND:
			return "(" + a + " &&& " + b + ")"
		case token.OR:
			return "(" + a + " ||| " + b + ")"
		case token.XOR:
			return "(" + a + " ^^^ " + b + ")"
		case token.LAND:
			return "(" + a + " && " + b + ")"
		case token.LOR:
			return "(" + a + " || " + b + ")"
		case token.EQL:
			return "(" + a + " == " + b + ")"
		case token.NEQ:
			return "(" + a + " != " + b + ")"
		case token.LSS:
			return "(decide (" + a + " < " + b + "))"
		case token.LEQ:
			return "(decide (" + a + " ≤ " + b + "))"
		case token.GTR:
			return "(decide (" + a + " > " + b + "))"
		case token.GEQ:
			return "(decide (" + a + " ≥ " + b + "))"
		}
		return t.bad("binary %s", x.Op)
	case *ast.CallExpr:
		// conversion?
		if tv, ok := t.c.info.Types[x.Fun]; ok && tv.IsType() && len(x.Args) == 1 {
			return wrap(t.width(e), t.ex(x.Args[0]))
		}
		if id, ok := x.Fun.(*ast.Ident); ok {
			if _, ok := t.c.funcs[id.Name]; ok {
				args := []string{}
				for _, a := range x.Args {
					args = append(args, t.ex(a))
				}
				return "(" + id.Name + " " + strings.Join(args, " ") + ")"
			}
		}
		if _, ok := x.Fun.(*ast.SelectorExpr); ok && len(x.Args) == 0 {
			return t.abstract(e)
		}
		return t.bad("call %s", types.ExprString(x.Fun))
	}
	return t.bad("expression %T", e)
}

func (t *ftr) ret(results []ast.Expr) string {
	if len(results) == 0 && len(t.named) > 0 {
		return "return " + tuple(t.named)
	}
	if t.errRes {
		last := results[len(results)-1]
		if id, ok := last.(*ast.Ident); ok && id.Name == "nil" {
			vals := []string{}
			for _, r := range results[:len(results)-1] {
				vals = append(vals, t.ex(r))
			}
			return "return .ok " + tuple(vals)
		}
		return "return .err"
	}
	vals := []string{}
	for _, r := range results {
		vals = append(vals, t.ex(r))
	}
	return "return " + tuple(vals)
}

func tuple(v []string) string {
	if len(v) == 1 {
		return v[0]
	}
	return "(" + strings.Join(v, ", ") + ")"
}

func (t *ftr) stmts(list []ast.Stmt, ind string, sb *strings.Builder, declared map[string]bool) {
	for _, s := range list {
		t.stmt(s, ind, sb, declared)
	}
}

func (t *ftr) stmt(s ast.Stmt, ind string, sb *strings.Builder, declared map[string]bool) {
	switch x := s.(type) {
	case *ast.ReturnStmt:
		fmt.Fprintf(sb, "%s%s\n", ind, t.ret(x.Results))
	case *ast.AssignStmt:
		if len(x.Lhs) != 1 || len(x.Rhs) != 1 {
			t.bad("multi-assignment")
			return
		}
		id, ok := x.Lhs[0].(*ast.Ident)
		if !ok {
			t.bad("assignment target %s", types.ExprString(x.Lhs[0]))
			return
		}
		rhs := t.ex(x.Rhs[0])
		w := t.width(x.Lhs[0])
		switch x.Tok {
		case token.DEFINE:
			declared[id.Name] = true
			fmt.Fprintf(sb, "%slet mut %s := %s\n", ind, id.Name, rhs)
		case token.ASSIGN:
			if !declared[id.Name] {
				declared[id.Name] = true
				fmt.Fprintf(sb, "%slet mut %s := %s\n", ind, id.Name, rhs)
			} else {
				fmt.Fprintf(sb, "%s%s := %s\n", ind, id.Name, rhs)
			}
		case token.OR_ASSIGN:
			fmt.Fprintf(sb, "%s%s := (%s ||| %s)\n", ind, id.Name, id.Name, rhs)
		case token.ADD_ASSIGN:
			fmt.Fprintf(sb, "%s%s := %s\n", ind, id.Name, wrap(w, id.Name+" + "+rhs))
		case token.SHR_ASSIGN:
			fmt.Fprintf(sb, "%s%s := (%s >>> %s)\n", ind, id.Name, id.Name, rhs)
		default:
			t.bad("assignment operator %s", x.Tok)
		}
	case *ast.DeclStmt:
		gd := x.Decl.(*ast.GenDecl)
		for _, sp := range gd.Specs {
			vs, ok := sp.(*ast.ValueSpec)
			if !ok {
				t.bad("declaration")
				return
			}
			for i, nm := range vs.Names {
				declared[nm.Name] = true
				v := "0"
				if i < len(vs.Values) {
					v = t.ex(vs.Values[i])
				}
				fmt.Fprintf(sb, "%slet mut %s := %s\n", ind, nm.Name, v)
			}
		}
	case *ast.IfStmt:
		if x.Init != nil {
			t.stmt(x.Init, ind, sb, declared)
		}
		fmt.Fprintf(sb, "%sif %s then\n", ind, t.ex(x.Cond))
		t.stmts(x.Body.List, ind+"  ", sb, declared)
		if len(x.Body.List) == 0 {
			fmt.Fprintf(sb, "%s  pure ()\n", ind)
		}
		if x.Else != nil {
			fmt.Fprintf(sb, "%selse\n", ind)
			switch e := x.Else.(type) {
			case *ast.BlockStmt:
				t.stmts(e.List, ind+"  ", sb, declared)
			default:
				t.stmt(e, ind+"  ", sb, declared)
			}
		}
	case *ast.SwitchStmt:
		if x.Tag != nil || x.Init != nil {
			t.bad("switch with tag")
			return
		}
		first := true
		for _, cc := range x.Body.List {
			cl := cc.(*ast.CaseClause)
			if cl.List == nil {
				fmt.Fprintf(sb, "%selse\n", ind)
			} else {
				conds := []string{}
				for _, e := range cl.List {
					conds = append(conds, t.ex(e))
				}
				kw := "if"
				if !first {
					kw = "else if"
				}
				fmt.Fprintf(sb, "%s%s %s then\n", ind, kw, strings.Join(conds, " || "))
			}
			first = false
			t.stmts(cl.Body, ind+"  ", sb, declared)
		}
	case *ast.ForStmt:
		// `for cond { body }` over shrinking uint64 values (a shift or division per round) becomes
		// a recursive helper with fuel 64 (more rounds than any uint64 can take):
		//   <fn>_loopN fuel v1 .. vk r1 .. rm : (v1 × .. × vk)    v = assigned in the loop, r = only read
		if x.Init != nil || x.Post != nil || x.Cond == nil {
			t.bad("for loop with init/post")
			return
		}
		assigned, used := loopVars(x, declared, t.pset)
		if len(assigned) == 0 {
			t.bad("loop assigns nothing")
			return
		}
		t.nloops++
		name := fmt.Sprintf("%s_loop%d", t.fname, t.nloops)
		var ro []string
		for _, u := range used {
			isA := false
			for _, a := range assigned {
				if a == u {
					isA = true
				}
			}
			if !isA {
				ro = append(ro, u)
			}
		}
		all := append(append([]string{}, assigned...), ro...)
		var hb strings.Builder
		ty := strings.Repeat("Nat → ", len(all))
		rt := strings.Join(repeatStr("Nat", len(assigned)), " × ")
		fmt.Fprintf(&hb, "def %s : Nat → %s(%s)\n", name, ty, rt)
		fmt.Fprintf(&hb, "  | 0, %s => %s\n", strings.Join(all, ", "), tuple(assigned))
		fmt.Fprintf(&hb, "  | fuel + 1, %s => Id.run do\n", strings.Join(all, ", "))
		for _, a := range assigned {
			fmt.Fprintf(&hb, "    let mut %s := %s\n", a, a)
		}
		fmt.Fprintf(&hb, "    if %s then\n", t.ex(x.Cond))
		inner := map[string]bool{}
		for k := range declared {
			inner[k] = true
		}
		t.stmts(x.Body.List, "      ", &hb, inner)
		fmt.Fprintf(&hb, "      return %s fuel %s\n", name, strings.Join(all, " "))
		fmt.Fprintf(&hb, "    else\n      return %s\n\n", tuple(assigned))
		t.helpers = append(t.helpers, hb.String())
		fmt.Fprintf(sb, "%s%s := %s 64 %s\n", ind, tuple(assigned), name, strings.Join(all, " "))
	case *ast.IncDecStmt:
		id, ok := x.X.(*ast.Ident)
		if !ok {
			t.bad("inc/dec target")
			return
		}
		if x.Tok == token.INC {
			fmt.Fprintf(sb, "%s%s := %s\n", ind, id.Name, wrap(t.width(x.X), id.Name+" + 1"))
		} else {
			t.bad("decrement")
		}
	case *ast.BlockStmt:
		t.stmts(x.List, ind, sb, declared)
	case *ast.EmptyStmt:
	default:
		t.bad("statement %T", s)
	}
}

func (t *ftr) resultType(ft *ast.FuncType) string {
	var tys []string
	t.errRes = false
	if ft.Results != nil {
		for _, f := range ft.Results.List {
			n := len(f.Names)
			if n == 0 {
				n = 1
			}
			tp := t.c.info.TypeOf(f.Type)
			for i := 0; i < n; i++ {
				if tp.String() == "error" {
					t.errRes = true
					continue
				}
				if b, ok := tp.Underlying().(*types.Basic); ok && b.Kind() == types.Bool {
					tys = append(tys, "Bool")
				} else {
					tys = append(tys, "Nat")
				}
			}
		}
	}
	ty := strings.Join(tys, " × ")
	if len(tys) > 1 {
		ty = "(" + ty + ")"
	}
	if t.errRes {
		return "Res " + ty
	}
	return ty
}

func (t *ftr) paramList(ft *ast.FuncType) string {
	var ps []string
	for _, f := range ft.Params.List {
		tp := t.c.info.TypeOf(f.Type)
		ty := "Nat"
		if b, ok := tp.Underlying().(*types.Basic); ok && b.Kind() == types.Bool {
			ty = "Bool"
		}
		for _, n := range f.Names {
			t.pset[n.Name] = true
			ps = append(ps, fmt.Sprintf("(%s : %s)", n.Name, ty))
		}
	}
	return strings.Join(ps, " ")
}

func repeatStr(s string, n int) []string {
	out := make([]string, n)
	for i := range out {
		out[i] = s
	}
	return out
}

// loopVars: variables (declared locals or parameters) assigned in the loop, and all such
// variables the loop mentions, in order of first appearance.
func loopVars(f *ast.ForStmt, declared, params map[string]bool) (assigned, used []string) {
	seenA, seenU := map[string]bool{}, map[string]bool{}
	known := func(n string) bool { return declared[n] || params[n] }
	ast.Inspect(f, func(n ast.Node) bool {
		switch a := n.(type) {
		case *ast.AssignStmt:
			for _, l := range a.Lhs {
				if id, ok := l.(*ast.Ident); ok && known(id.Name) && !seenA[id.Name] {
					seenA[id.Name] = true
					assigned = append(assigned, id.Name)
				}
			}
		case *ast.IncDecStmt:
			if id, ok := a.X.(*ast.Ident); ok && known(id.Name) && !seenA[id.Name] {
				seenA[id.Name] = true
				assigned = append(assigned, id.Name)
			}
		case *ast.Ident:
			if known(a.Name) && !seenU[a.Name] {
				seenU[a.Name] = true
				used = append(used, a.Name)
			}
		}
		return true
	})
	return
}

func (c *ctx) renderFunc(name string, ft *ast.FuncType, body *ast.BlockStmt, sb *strings.Builder) {
	t := &ftr{c: c, pset: map[string]bool{}, fname: name}
	params := t.paramList(ft)
	rt := t.resultType(ft)
	var bsb strings.Builder
	declared := map[string]bool{}
	// named results act as declared locals initialised to zero
	if ft.Results != nil {
		for _, f := range ft.Results.List {
			for _, n := range f.Names {
				if n.Name != "_" && n.Name != "err" {
					declared[n.Name] = true
					t.named = append(t.named, n.Name)
					fmt.Fprintf(&bsb, "  let mut %s := 0\n", n.Name)
				}
			}
		}
	}
	// parameters that the body assigns to become mutable locals
	ast.Inspect(body, func(n ast.Node) bool {
		var target ast.Expr
		switch a := n.(type) {
		case *ast.AssignStmt:
			if len(a.Lhs) == 1 && a.Tok != token.DEFINE {
				target = a.Lhs[0]
			}
		case *ast.IncDecStmt:
			target = a.X
		}
		if id, ok := target.(*ast.Ident); ok && t.pset[id.Name] && !declared[id.Name] {
			declared[id.Name] = true
			fmt.Fprintf(&bsb, "  let mut %s := %s\n", id.Name, id.Name)
		}
		return true
	})
	t.stmts(body.List, "  ", &bsb, declared)
	if t.fail != "" {
		c.failf("function %s is outside the translatable subset: %s", name, t.fail)
		return
	}
	extra := ""
	sort.Strings(t.params)
	for _, p := range t.params {
		extra += fmt.Sprintf(" (%s : Nat)", p)
	}
	for _, h := range t.helpers {
		sb.WriteString(h)
	}
	fmt.Fprintf(sb, "def %s %s%s : %s := Id.run do\n%s\n", name, params, extra, rt, bsb.String())
}

func (c *ctx) funcsHeader(sb *strings.Builder) {
	sb.WriteString("import IceModel.Model.Varint\nimport IceModel.Gen.Consts\nimport IceModel.Gen.Prelude\n")
	sb.WriteString("set_option linter.unusedVariables false\nnamespace Ice.Gen\nopen Ice.Model (Res)\n\n")
}

// genFuncs writes one file per function group, so that a change to one function only breaks the
// bridges (and properties) that depend on it.  A group whose function leaves the translatable
// subset is not written at all; the reason goes to Gen/ERRORS.txt.
func (c *ctx) genFuncs() {
	c.write("Prelude.lean", "namespace Ice.Gen\n\ndef w64 (x : Nat) : Nat := x % 2 ^ 64\ndef w32 (x : Nat) : Nat := x % 2 ^ 32\ndef w16 (x : Nat) : Nat := x % 2 ^ 16\ndef w8 (x : Nat) : Nat := x % 2 ^ 8\n\nend Ice.Gen\n")
	group := func(file string, names []string, extra func(sb *strings.Builder)) {
		before := len(c.errs)
		var sb strings.Builder
		c.funcsHeader(&sb)
		for _, n := range names {
			fd := c.funcs[n]
			if fd == nil {
				c.failf("function %s not found", n)
				continue
			}
			c.renderFunc(n, fd.Type, fd.Body, &sb)
		}
		if extra != nil {
			extra(&sb)
		}
		sb.WriteString("end Ice.Gen\n")
		if len(c.errs) > before {
			c.soft = append(c.soft, fmt.Sprintf("%s not generated: %s", file, strings.Join(c.errs[before:], "; ")))
			c.errs = c.errs[:before]
			return
		}
		c.write(file, sb.String())
	}
	group("FuncsChunk.lean", []string{"getChunkSize"}, nil)
	group("FuncsFreq.lean", []string{"encodeFreqHasLocs", "decodeFreqHasLocs"}, nil)
	group("FuncsVarint.lean", []string{"numUvarintBytes", "totalUvarintBytes"}, nil)
	group("Funcs1Hit.lean", []string{"under32Bits", "fSTValEncode1Hit", "fSTValDecode1Hit"}, func(sb *strings.Builder) {
		// the 1-hit branch test of PostingsList.read
		if fd := c.funcs["PostingsList.read"]; fd != nil {
			found := false
			ast.Inspect(fd.Body, func(n ast.Node) bool {
				ifs, ok := n.(*ast.IfStmt)
				if !ok || found {
					return true
				}
				if strings.Contains(types.ExprString(ifs.Cond), "fSTValEncodingMask") {
					t := &ftr{c: c, pset: map[string]bool{}}
					e := t.ex(ifs.Cond)
					if t.fail != "" {
						c.failf("1-hit test in PostingsList.read: %s", t.fail)
					}
					ps := ""
					for _, p := range t.params {
						ps += fmt.Sprintf(" (%s : Nat)", p)
					}
					fmt.Fprintf(sb, "/-- the branch condition of PostingsList.read -/\ndef read_is1Hit%s : Bool := %s\n\n", ps, e)
					found = true
				}
				return true
			})
			if !found {
				c.failf("1-hit test not found in PostingsList.read")
			}
		} else {
			c.failf("PostingsList.read not found")
		}
		// the use1HitEncoding closure of finishTerm
		if fd := c.funcs["finishTerm"]; fd != nil {
			found := false
			ast.Inspect(fd.Body, func(n ast.Node) bool {
				as, ok := n.(*ast.AssignStmt)
				if !ok || found || len(as.Lhs) != 1 || len(as.Rhs) != 1 {
					return true
				}
				if id, ok := as.Lhs[0].(*ast.Ident); ok && id.Name == "use1HitEncoding" {
					if fl, ok := as.Rhs[0].(*ast.FuncLit); ok {
						c.renderFunc("use1HitEncoding", fl.Type, fl.Body, sb)
						found = true
					}
				}
				return true
			})
			if !found {
				c.failf("use1HitEncoding closure not found in finishTerm")
			}
		} else {
			c.failf("finishTerm not found")
		}
	})
}
