package main

import (
	"fmt"
	"go/ast"
	"go/token"
	"go/types"
	"sort"
	"strings"
)

func typeName(t types.Type) string {
	for {
		switch x := t.(type) {
		case *types.Pointer:
			t = x.Elem()
			continue
		case *types.Named:
			return x.Obj().Name()
		}
		return t.String()
	}
}

// rootOf strips index / slice / star / paren and inner selectors: returns the outermost
// selector-or-ident the expression is anchored in, e.g. s.Postings[pid] -> (s, "Postings").
func rootSel(e ast.Expr) (base ast.Expr, field string) {
	for {
		switch x := e.(type) {
		case *ast.IndexExpr:
			e = x.X
		case *ast.SliceExpr:
			e = x.X
		case *ast.StarExpr:
			e = x.X
		case *ast.ParenExpr:
			e = x.X
		case *ast.SelectorExpr:
			// keep descending while the inner expression is itself a field path of a struct
			if inner, ok := x.X.(*ast.SelectorExpr); ok {
				_ = inner
				return x.X, x.Sel.Name
			}
			return x.X, x.Sel.Name
		default:
			return e, ""
		}
	}
}

// ---------- shared state (C09) ----------

func (c *ctx) genShared() {
	var sb strings.Builder
	sb.WriteString("namespace Ice.Gen.Shared\n\n")
	var segWrites, pkgWrites, dvrCalls []string
	unlockedWriters := map[string]bool{}
	// methods of *docValueReader that assign to their receiver's fields
	mutDvr := map[string]bool{}
	for k, fd := range c.funcs {
		if !strings.HasPrefix(k, "docValueReader.") || fd.Recv == nil || len(fd.Recv.List[0].Names) == 0 {
			continue
		}
		rn := fd.Recv.List[0].Names[0].Name
		ast.Inspect(fd.Body, func(n ast.Node) bool {
			if as, ok := n.(*ast.AssignStmt); ok {
				for _, l := range as.Lhs {
					b, f := rootSel(l)
					if id, ok := b.(*ast.Ident); ok && id.Name == rn && f != "" {
						mutDvr[fd.Name.Name] = true
					}
				}
			}
			return true
		})
	}
	for _, k := range c.sortedFuncKeys() {
		fd := c.funcs[k]
		record := func(lhs ast.Expr, st lockState, pos token.Pos) {
			b, f := rootSel(lhs)
			if f == "" {
				// package-level variable?
				if id, ok := b.(*ast.Ident); ok {
					if obj := c.info.Uses[id]; obj != nil {
						if v, ok := obj.(*types.Var); ok && v.Parent() == c.pkg.Types.Scope() {
							pkgWrites = append(pkgWrites, fmt.Sprintf("(%s, %s, %v)", leanStr(k), leanStr(id.Name), c.insideOnceDo(fd, pos)))
						}
					}
				}
				return
			}
			if tp := c.info.TypeOf(b); tp != nil && typeName(tp) == "Segment" {
				locked := st.locked
				segWrites = append(segWrites, fmt.Sprintf("(%s, %s, %v)", leanStr(k), leanStr(f), locked))
				if !locked {
					unlockedWriters[k] = true
				}
			}
		}
		w := &lockWalker{c: c}
		w.visit = func(n ast.Node, st lockState) {
			switch x := n.(type) {
			case *ast.AssignStmt:
				for _, l := range x.Lhs {
					record(l, st, x.Pos())
				}
			case *ast.IncDecStmt:
				record(x.X, st, x.Pos())
			case *ast.ExprStmt:
				if call, ok := x.X.(*ast.CallExpr); ok {
					if id, ok := call.Fun.(*ast.Ident); ok && (id.Name == "delete" || id.Name == "copy") && len(call.Args) > 0 {
						record(call.Args[0], st, x.Pos())
					}
				}
			}
		}
		w.block(fd.Body.List, lockState{})
		// closures inside (e.g. Once.Do bodies)
		ast.Inspect(fd.Body, func(n ast.Node) bool {
			if fl, ok := n.(*ast.FuncLit); ok {
				w2 := &lockWalker{c: c, visit: w.visit}
				w2.block(fl.Body.List, lockState{})
			}
			return true
		})
		// calls of mutating docValueReader methods and where their receiver comes from
		if !strings.HasPrefix(k, "docValueReader.") {
			ast.Inspect(fd.Body, func(n ast.Node) bool {
				call, ok := n.(*ast.CallExpr)
				if !ok {
					return true
				}
				sel, ok := call.Fun.(*ast.SelectorExpr)
				if !ok || !mutDvr[sel.Sel.Name] {
					return true
				}
				if tp := c.info.TypeOf(sel.X); tp == nil || typeName(tp) != "docValueReader" {
					return true
				}
				dvrCalls = append(dvrCalls, fmt.Sprintf("(%s, %s, %s)", leanStr(k), leanStr(sel.Sel.Name), leanStr(c.dvrOrigin(fd, sel.X))))
				return true
			})
		}
	}
	// what is put into a docVisitState's reader map: must be per-call clones
	var dvrsStores []string
	for _, k := range c.sortedFuncKeys() {
		fd := c.funcs[k]
		ast.Inspect(fd.Body, func(n ast.Node) bool {
			as, ok := n.(*ast.AssignStmt)
			if !ok || len(as.Lhs) != 1 || len(as.Rhs) != 1 {
				return true
			}
			ix, ok := as.Lhs[0].(*ast.IndexExpr)
			if !ok {
				return true
			}
			if sel, ok := ix.X.(*ast.SelectorExpr); ok && sel.Sel.Name == "dvrs" {
				dvrsStores = append(dvrsStores, fmt.Sprintf("(%s, %s)", leanStr(k), leanStr(c.dvrOriginExpr(fd, as.Rhs[0]))))
			}
			return true
		})
	}
	sort.Strings(dvrsStores)
	fmt.Fprintf(&sb, "/-- what is stored into a docVisitState's reader map: (function, origin of the stored reader) -/\ndef dvReaderMapStores : List (String × String) := [%s]\n\n", strings.Join(uniqStrings(dvrsStores), ", "))
	sort.Strings(segWrites)
	fmt.Fprintf(&sb, "/-- every store into a field of a Segment: (function, field, under the segment mutex) -/\ndef segmentWrites : List (String × String × Bool) := [%s]\n\n", strings.Join(uniqStrings(segWrites), ", "))
	// callers of the functions that write without the lock
	var callers []string
	var uw []string
	for k := range unlockedWriters {
		uw = append(uw, k)
	}
	sort.Strings(uw)
	for _, k := range uw {
		var cs []string
		for _, ck := range c.sortedFuncKeys() {
			if c.calls(c.funcs[ck], k) {
				cs = append(cs, leanStr(ck))
			}
		}
		callers = append(callers, fmt.Sprintf("(%s, [%s])", leanStr(k), strings.Join(cs, ", ")))
	}
	fmt.Fprintf(&sb, "/-- who calls the functions that store into a Segment without the mutex -/\ndef unlockedWriterCallers : List (String × List String) := [%s]\n\n", strings.Join(callers, ",\n  "))
	sort.Strings(pkgWrites)
	fmt.Fprintf(&sb, "/-- stores into package-level variables: (function, variable, inside a sync.Once.Do body) -/\ndef packageVarWrites : List (String × String × Bool) := [%s]\n\n", strings.Join(uniqStrings(pkgWrites), ", "))
	sort.Strings(dvrCalls)
	fmt.Fprintf(&sb, "/-- calls of state-changing docValueReader methods from outside the type: (function, method, origin of the receiver) -/\ndef dvReaderMutatorCalls : List (String × String × String) := [%s]\n\n", strings.Join(uniqStrings(dvrCalls), ", "))
	sb.WriteString("end Ice.Gen.Shared\n")
	c.write("Shared.lean", sb.String())
}

func uniqStrings(l []string) []string {
	var out []string
	for i, s := range l {
		if i == 0 || s != l[i-1] {
			out = append(out, s)
		}
	}
	return out
}

// calls: does fd call the function/method with key k (by name and, for methods, receiver type)?
func (c *ctx) calls(fd *ast.FuncDecl, k string) bool {
	name := k
	recv := ""
	if i := strings.Index(k, "."); i >= 0 {
		recv, name = k[:i], k[i+1:]
	}
	found := false
	ast.Inspect(fd.Body, func(n ast.Node) bool {
		call, ok := n.(*ast.CallExpr)
		if !ok {
			return true
		}
		switch f := call.Fun.(type) {
		case *ast.Ident:
			if recv == "" && f.Name == name {
				found = true
			}
		case *ast.SelectorExpr:
			if recv != "" && f.Sel.Name == name {
				if tp := c.info.TypeOf(f.X); tp != nil && typeName(tp) == recv {
					found = true
				}
			}
		}
		return true
	})
	return found
}

func (c *ctx) insideOnceDo(fd *ast.FuncDecl, pos token.Pos) bool {
	inside := false
	ast.Inspect(fd.Body, func(n ast.Node) bool {
		call, ok := n.(*ast.CallExpr)
		if !ok {
			return true
		}
		sel, ok := call.Fun.(*ast.SelectorExpr)
		if !ok || sel.Sel.Name != "Do" {
			return true
		}
		if tp := c.info.TypeOf(sel.X); tp == nil || !strings.Contains(tp.String(), "sync.Once") {
			return true
		}
		for _, a := range call.Args {
			if fl, ok := a.(*ast.FuncLit); ok && fl.Pos() <= pos && pos <= fl.End() {
				inside = true
			}
		}
		return true
	})
	return inside
}

// dvrOrigin: where a *docValueReader expression comes from: "clone" (result of cloneInto, or an
// element of a docVisitState's map, which only ever holds clones), "shared" (taken from a
// Segment's fieldDvReaders), "param", or "other:<expr>".
func (c *ctx) dvrOrigin(fd *ast.FuncDecl, e ast.Expr) string {
	switch x := e.(type) {
	case *ast.Ident:
		origin := "other:" + x.Name
		// parameter?
		for _, f := range fd.Type.Params.List {
			for _, n := range f.Names {
				if n.Name == x.Name {
					origin = "param"
				}
			}
		}
		ast.Inspect(fd.Body, func(n ast.Node) bool {
			as, ok := n.(*ast.AssignStmt)
			if !ok {
				return true
			}
			for i, l := range as.Lhs {
				id, ok := l.(*ast.Ident)
				if !ok || id.Name != x.Name {
					continue
				}
				var rhs ast.Expr
				if len(as.Rhs) == len(as.Lhs) {
					rhs = as.Rhs[i]
				} else if len(as.Rhs) == 1 {
					rhs = as.Rhs[0]
				}
				if rhs == nil {
					continue
				}
				o := c.dvrOriginExpr(fd, rhs)
				if origin == "param" || strings.HasPrefix(origin, "other:") || o == "shared" {
					origin = o
				}
			}
			return true
		})
		return origin
	default:
		return c.dvrOriginExpr(fd, e)
	}
}

func (c *ctx) dvrOriginExpr(fd *ast.FuncDecl, e ast.Expr) string {
	s := types.ExprString(e)
	switch {
	case strings.Contains(s, ".cloneInto("):
		return "clone"
	case strings.Contains(s, "fieldDvReaders"):
		return "shared"
	case strings.Contains(s, ".dvrs["):
		return "clone"
	case strings.HasPrefix(s, "&docValueReader"):
		return "fresh"
	}
	return "other:" + s
}

// ---------- bitmap mutation sites (C15) ----------

var roaringMutators = map[string]bool{"Add": true, "AddInt": true, "AddMany": true, "AddRange": true,
	"CheckedAdd": true, "Remove": true, "RemoveRange": true, "CheckedRemove": true, "Or": true, "And": true,
	"AndNot": true, "Xor": true, "Clear": true, "RunOptimize": true, "RemoveRunCompression": true,
	"FromBuffer": true, "FromBase64": true, "ReadFrom": true, "UnmarshalBinary": true, "Flip": true,
	"FlipInt": true, "SetCopyOnWrite": true, "FromUnsafeBytes": true, "FrozenView": true, "AndAny": true}

func isBitmap(t types.Type) bool {
	return t != nil && strings.HasSuffix(strings.TrimPrefix(t.String(), "*"), "roaring.Bitmap")
}

// classify: origin of a bitmap-valued expression inside fd.  Results:
//   fresh                      allocated here (roaring.New*, roaring.And/AndNot/Or…, Clone)
//   field:<Type>.<field>       reached through a struct field
//   param:<func>#<index>       a parameter of fd (resolved further by the caller analysis)
//   other:<expr>
func (c *ctx) classifyBitmap(k string, fd *ast.FuncDecl, e ast.Expr, depth int) string {
	if depth > 6 {
		return "other:depth"
	}
	switch x := e.(type) {
	case *ast.ParenExpr:
		return c.classifyBitmap(k, fd, x.X, depth)
	case *ast.CallExpr:
		s := types.ExprString(x.Fun)
		if strings.HasPrefix(s, "roaring.") || strings.HasSuffix(s, ".Clone") {
			return "fresh"
		}
		return "other:" + s + "()"
	case *ast.IndexExpr:
		return c.classifyBitmap(k, fd, x.X, depth)
	case *ast.SelectorExpr:
		if tp := c.info.TypeOf(x.X); tp != nil {
			return "field:" + typeName(tp) + "." + x.Sel.Name
		}
		return "other:" + types.ExprString(e)
	case *ast.Ident:
		// parameter?
		idx := 0
		for _, f := range fd.Type.Params.List {
			for _, n := range f.Names {
				if n.Name == x.Name {
					return fmt.Sprintf("param:%s#%d", k, idx)
				}
				idx++
			}
		}
		if fd.Recv != nil && len(fd.Recv.List[0].Names) > 0 && fd.Recv.List[0].Names[0].Name == x.Name {
			return "receiver"
		}
		// local: look at what is assigned to it
		var origins []string
		ast.Inspect(fd.Body, func(n ast.Node) bool {
			switch s := n.(type) {
			case *ast.AssignStmt:
				for i, l := range s.Lhs {
					if id, ok := l.(*ast.Ident); ok && id.Name == x.Name {
						if len(s.Rhs) == len(s.Lhs) {
							origins = append(origins, c.classifyBitmap(k, fd, s.Rhs[i], depth+1))
						} else if len(s.Rhs) == 1 {
							origins = append(origins, c.classifyBitmap(k, fd, s.Rhs[0], depth+1))
						}
					}
				}
			case *ast.RangeStmt:
				if id, ok := s.Value.(*ast.Ident); ok && id.Name == x.Name {
					origins = append(origins, c.classifyBitmap(k, fd, s.X, depth+1))
				}
			case *ast.ValueSpec:
				for i, n := range s.Names {
					if n.Name == x.Name && i < len(s.Values) {
						origins = append(origins, c.classifyBitmap(k, fd, s.Values[i], depth+1))
					}
				}
			}
			return true
		})
		if len(origins) == 0 {
			return "other:" + x.Name
		}
		// the worst origin wins
		worst := origins[0]
		for _, o := range origins {
			if o != "fresh" {
				worst = o
			}
		}
		return worst
	}
	return "other:" + types.ExprString(e)
}

func (c *ctx) genMutations() {
	var sb strings.Builder
	sb.WriteString("namespace Ice.Gen.Mutations\n\n")
	type site struct{ fn, method, origin string }
	var sites []site
	// direct mutation sites; and which parameters a function mutates (directly)
	mutParams := map[string]bool{} // "func#idx"
	for _, k := range c.sortedFuncKeys() {
		fd := c.funcs[k]
		ast.Inspect(fd.Body, func(n ast.Node) bool {
			call, ok := n.(*ast.CallExpr)
			if !ok {
				return true
			}
			sel, ok := call.Fun.(*ast.SelectorExpr)
			if !ok || !roaringMutators[sel.Sel.Name] || !isBitmap(c.info.TypeOf(sel.X)) {
				return true
			}
			o := c.classifyBitmap(k, fd, sel.X, 0)
			sites = append(sites, site{k, sel.Sel.Name, o})
			if strings.HasPrefix(o, "param:") {
				mutParams[strings.TrimPrefix(o, "param:")] = true
			}
			return true
		})
	}
	// propagate through call sites: an argument passed in a mutated parameter position
	resolved := map[string][]string{} // "func#idx" -> origins at call sites
	changed := true
	for iter := 0; changed && iter < 8; iter++ {
		changed = false
		for _, k := range c.sortedFuncKeys() {
			fd := c.funcs[k]
			ast.Inspect(fd.Body, func(n ast.Node) bool {
				call, ok := n.(*ast.CallExpr)
				if !ok {
					return true
				}
				callee := ""
				switch f := call.Fun.(type) {
				case *ast.Ident:
					callee = f.Name
				case *ast.SelectorExpr:
					if tp := c.info.TypeOf(f.X); tp != nil {
						callee = typeName(tp) + "." + f.Sel.Name
					}
				}
				if _, ok := c.funcs[callee]; !ok {
					return true
				}
				for i, a := range call.Args {
					key := fmt.Sprintf("%s#%d", callee, i)
					if !mutParams[key] {
						continue
					}
					o := c.classifyBitmap(k, fd, a, 0)
					have := false
					for _, x := range resolved[key] {
						if x == k+"→"+o {
							have = true
						}
					}
					if !have {
						resolved[key] = append(resolved[key], k+"→"+o)
						changed = true
					}
					if strings.HasPrefix(o, "param:") {
						p := strings.TrimPrefix(o, "param:")
						if !mutParams[p] {
							mutParams[p] = true
							changed = true
						}
					}
				}
				return true
			})
		}
	}
	// final: every mutated root, with parameters replaced by what their call sites pass
	var expand func(o string, seen map[string]bool) []string
	expand = func(o string, seen map[string]bool) []string {
		if !strings.HasPrefix(o, "param:") {
			return []string{o}
		}
		key := strings.TrimPrefix(o, "param:")
		if seen[key] {
			return nil
		}
		seen[key] = true
		rs := resolved[key]
		if len(rs) == 0 {
			return []string{"entry-param:" + key}
		}
		var out []string
		for _, r := range rs {
			parts := strings.SplitN(r, "→", 2)
			out = append(out, expand(parts[1], seen)...)
		}
		// exported functions can also be called from outside the package
		fn := strings.SplitN(key, "#", 2)[0]
		name := fn
		if i := strings.Index(fn, "."); i >= 0 {
			name = fn[i+1:]
		}
		if ast.IsExported(name) {
			out = append(out, "entry-param:"+key)
		}
		return out
	}
	var roots []string
	for _, s := range sites {
		for _, o := range expand(s.origin, map[string]bool{}) {
			kind, detail := o, ""
			if i := strings.Index(o, ":"); i >= 0 {
				kind, detail = o[:i], o[i+1:]
			}
			roots = append(roots, fmt.Sprintf("(%s, %s, %s, %s)", leanStr(s.fn), leanStr(s.method), leanStr(kind), leanStr(detail)))
		}
	}
	sort.Strings(roots)
	fmt.Fprintf(&sb, "/-- every call of a mutating roaring.Bitmap method with the origin of the bitmap it mutates,\n    parameters traced back through the package's call sites:\n    (function, method, origin kind, origin detail) with kind = fresh | field (Type.field) |\n    entry-param (func#index) | receiver | other -/\ndef mutatedRoots : List (String × String × String × String) := [%s]\n\n", strings.Join(uniqStrings(roots), ",\n  "))
	sb.WriteString("end Ice.Gen.Mutations\n")
	c.write("Mutations.lean", sb.String())
}
