package main

import (
	"fmt"
	"go/ast"
	"go/token"
	"go/types"
	"sort"
	"strings"
)

// ---------- Footer ----------

func (c *ctx) genFooter() {
	var sb strings.Builder
	sb.WriteString("namespace Ice.Gen.Footer\n\n")
	// persistFooter: the ordered binary.Write calls
	var wr []string
	if fd := c.funcs["persistFooter"]; fd != nil {
		ast.Inspect(fd.Body, func(n ast.Node) bool {
			call, ok := n.(*ast.CallExpr)
			if !ok {
				return true
			}
			if sel, ok := call.Fun.(*ast.SelectorExpr); ok && sel.Sel.Name == "Write" && len(call.Args) == 3 {
				if id, ok := sel.X.(*ast.Ident); ok && id.Name == "binary" {
					arg := call.Args[2]
					sz := 0
					if b, ok := c.info.TypeOf(arg).Underlying().(*types.Basic); ok {
						switch b.Kind() {
						case types.Uint64, types.Int64:
							sz = 8
						case types.Uint32, types.Int32:
							sz = 4
						case types.Uint16:
							sz = 2
						}
					}
					order := "?"
					if s, ok := call.Args[1].(*ast.SelectorExpr); ok {
						order = s.Sel.Name
					}
					name := types.ExprString(arg)
					name = strings.TrimPrefix(name, "footer.")
					name = strings.TrimPrefix(name, "w.")
					wr = append(wr, fmt.Sprintf("(%s, %d, %s)", leanStr(name), sz, leanStr(order)))
				}
			}
			return true
		})
	} else {
		c.failf("persistFooter not found")
	}
	fmt.Fprintf(&sb, "/-- fields written by persistFooter, in order: (expression, bytes, byte order) -/\ndef written : List (String × Nat × String) := [%s]\n\n", strings.Join(wr, ", "))
	// parseFooter: rv.X = binary.BigEndian.UintNN(..) in order, and the chain of offset subtractions
	var rd, widths []string
	if fd := c.funcs["parseFooter"]; fd != nil {
		ast.Inspect(fd.Body, func(n ast.Node) bool {
			as, ok := n.(*ast.AssignStmt)
			if !ok || len(as.Lhs) != 1 || len(as.Rhs) != 1 {
				return true
			}
			lhs := types.ExprString(as.Lhs[0])
			rhs := types.ExprString(as.Rhs[0])
			if strings.HasPrefix(lhs, "rv.") && strings.Contains(rhs, "binary.") {
				sz := 0
				if strings.Contains(rhs, "Uint64") {
					sz = 8
				} else if strings.Contains(rhs, "Uint32") {
					sz = 4
				}
				order := "?"
				if strings.Contains(rhs, "BigEndian") {
					order = "BigEndian"
				} else if strings.Contains(rhs, "LittleEndian") {
					order = "LittleEndian"
				}
				rd = append(rd, fmt.Sprintf("(%s, %d, %s)", leanStr(strings.TrimPrefix(lhs, "rv.")), sz, leanStr(order)))
			}
			if be, ok := as.Rhs[0].(*ast.BinaryExpr); ok && be.Op == token.SUB && strings.HasSuffix(lhs, "Offset") {
				widths = append(widths, leanStr(types.ExprString(be.Y)))
			}
			return true
		})
	} else {
		c.failf("parseFooter not found")
	}
	fmt.Fprintf(&sb, "/-- fields read by parseFooter, in order (from the end of the file backwards) -/\ndef read : List (String × Nat × String) := [%s]\n\n", strings.Join(rd, ", "))
	fmt.Fprintf(&sb, "/-- the width constants parseFooter steps back by, in order -/\ndef readWidths : List String := [%s]\n\n", strings.Join(widths, ", "))
	sb.WriteString("end Ice.Gen.Footer\n")
	c.write("Footer.lean", sb.String())
}

// ---------- Locks ----------

func (c *ctx) genLocks() {
	var sb strings.Builder
	sb.WriteString("namespace Ice.Gen.Locks\n\n")
	var rets, calls, amb, fns []string
	for _, k := range c.sortedFuncKeys() {
		fd := c.funcs[k]
		has := false
		ast.Inspect(fd.Body, func(n ast.Node) bool {
			if call, ok := n.(*ast.CallExpr); ok && isMutexCall(c, call, "Lock") {
				has = true
			}
			return true
		})
		if !has {
			continue
		}
		fns = append(fns, leanStr(k))
		w := &lockWalker{c: c}
		w.onReturn = func(r *ast.ReturnStmt, st lockState) {
			rets = append(rets, fmt.Sprintf("(%s, %d, %v)", leanStr(k), c.line(r.Pos()), st.locked && !st.deferred))
		}
		w.visit = func(n ast.Node, st lockState) {
			if !st.locked {
				return
			}
			// callbacks invoked while the mutex is held (statement level, not nested blocks)
			var exprs []ast.Expr
			switch x := n.(type) {
			case *ast.ExprStmt:
				exprs = append(exprs, x.X)
			case *ast.AssignStmt:
				exprs = append(exprs, x.Rhs...)
			case *ast.ReturnStmt:
				exprs = append(exprs, x.Results...)
			}
			for _, e := range exprs {
				ast.Inspect(e, func(m ast.Node) bool {
					if call, ok := m.(*ast.CallExpr); ok && isFuncTypedCall(c, call) {
						calls = append(calls, fmt.Sprintf("(%s, %d, %s)", leanStr(k), c.line(call.Pos()), leanStr(types.ExprString(call.Fun))))
					}
					return true
				})
			}
		}
		end := w.block(fd.Body.List, lockState{})
		if !terminates(fd.Body.List) {
			rets = append(rets, fmt.Sprintf("(%s, %d, %v)", leanStr(k), c.line(fd.Body.End()), end.locked && !end.deferred))
		}
		for _, l := range w.ambiguous {
			amb = append(amb, fmt.Sprintf("(%s, %d)", leanStr(k), l))
		}
	}
	fmt.Fprintf(&sb, "/-- functions that take the segment mutex -/\ndef lockingFuncs : List String := [%s]\n\n", strings.Join(fns, ", "))
	fmt.Fprintf(&sb, "/-- every exit of those functions: (function, line, mutex still held) -/\ndef exits : List (String × Nat × Bool) := [%s]\n\n", strings.Join(rets, ", "))
	fmt.Fprintf(&sb, "/-- calls of function-typed values (callbacks) made while the mutex is held -/\ndef callbacksUnderLock : List (String × Nat × String) := [%s]\n\n", strings.Join(calls, ", "))
	fmt.Fprintf(&sb, "/-- branch joins where the two arms disagree on the lock state -/\ndef ambiguousJoins : List (String × Nat) := [%s]\n\n", strings.Join(amb, ", "))
	sb.WriteString("end Ice.Gen.Locks\n")
	c.write("Locks.lean", sb.String())
}

// ---------- Write sites (error propagation on the write path, cancellation polls) ----------

func lastResultIsError(c *ctx, call *ast.CallExpr) (bool, int) {
	tp := c.info.TypeOf(call)
	if tp == nil {
		return false, 0
	}
	switch t := tp.(type) {
	case *types.Tuple:
		if t.Len() > 0 && t.At(t.Len()-1).Type().String() == "error" {
			return true, t.Len()
		}
	default:
		if tp.String() == "error" {
			return true, 1
		}
	}
	return false, 0
}

func mentions(n ast.Node, name string) bool {
	found := false
	ast.Inspect(n, func(m ast.Node) bool {
		if id, ok := m.(*ast.Ident); ok && id.Name == name {
			found = true
		}
		return true
	})
	return found
}

// checkedLater: is the error variable looked at by a later statement of the same block (or by the
// enclosing loop's condition) before it is overwritten?
func checkedLater(rest []ast.Stmt, name string, loopCond ast.Expr) bool {
	for _, s := range rest {
		switch x := s.(type) {
		case *ast.IfStmt:
			if mentions(x.Cond, name) || (x.Init != nil && mentions(x.Init, name)) {
				return true
			}
		case *ast.ForStmt:
			if x.Cond != nil && mentions(x.Cond, name) {
				return true
			}
		case *ast.ReturnStmt:
			if mentions(x, name) {
				return true
			}
		case *ast.SwitchStmt:
			if mentions(x, name) {
				return true
			}
		case *ast.AssignStmt:
			for _, l := range x.Lhs {
				if id, ok := l.(*ast.Ident); ok && id.Name == name {
					// overwritten; fine if the right side used it
					for _, r := range x.Rhs {
						if mentions(r, name) {
							return true
						}
					}
					return false
				}
			}
		}
	}
	if loopCond != nil && mentions(loopCond, name) {
		return true
	}
	return false
}

func (c *ctx) genWriteSites() {
	var sb strings.Builder
	sb.WriteString("namespace Ice.Gen.WriteSites\n\n")
	var dropped, unchecked, polls, flushes []string
	namedErrResult := func(fd *ast.FuncDecl) string {
		if fd.Type.Results == nil {
			return ""
		}
		for _, f := range fd.Type.Results.List {
			if c.info.TypeOf(f.Type).String() == "error" && len(f.Names) == 1 {
				return f.Names[0].Name
			}
		}
		return ""
	}
	for _, k := range c.sortedFuncKeys() {
		fd := c.funcs[k]
		named := namedErrResult(fd)
		var walk func(list []ast.Stmt, loopCond ast.Expr)
		walk = func(list []ast.Stmt, loopCond ast.Expr) {
			for i, s := range list {
				switch x := s.(type) {
				case *ast.ExprStmt:
					if call, ok := x.X.(*ast.CallExpr); ok {
						if isErr, _ := lastResultIsError(c, call); isErr {
							dropped = append(dropped, fmt.Sprintf("(%s, %s)", leanStr(k), leanStr(types.ExprString(call.Fun))))
						}
					}
				case *ast.DeferStmt, *ast.GoStmt:
				case *ast.AssignStmt:
					if len(x.Rhs) == 1 {
						if call, ok := x.Rhs[0].(*ast.CallExpr); ok {
							if isErr, n := lastResultIsError(c, call); isErr && len(x.Lhs) == n {
								id, ok := x.Lhs[n-1].(*ast.Ident)
								if ok && id.Name == "_" {
									dropped = append(dropped, fmt.Sprintf("(%s, %s)", leanStr(k), leanStr(types.ExprString(call.Fun))))
								} else if ok {
									if !(checkedLater(list[i+1:], id.Name, loopCond) || (named == id.Name && i == len(list)-1)) {
										unchecked = append(unchecked, fmt.Sprintf("(%s, %s)", leanStr(k), leanStr(types.ExprString(call.Fun))))
									}
								}
							}
						}
					}
				case *ast.IfStmt:
					if x.Init != nil {
						if as, ok := x.Init.(*ast.AssignStmt); ok && len(as.Rhs) == 1 {
							if call, ok := as.Rhs[0].(*ast.CallExpr); ok {
								if isErr, n := lastResultIsError(c, call); isErr && len(as.Lhs) == n {
									if id, ok := as.Lhs[n-1].(*ast.Ident); ok && !mentions(x.Cond, id.Name) {
										unchecked = append(unchecked, fmt.Sprintf("(%s, %s)", leanStr(k), leanStr(types.ExprString(call.Fun))))
									}
								}
							}
						}
					}
					// cancellation polls
					if call, ok := x.Cond.(*ast.CallExpr); ok {
						if id, ok := call.Fun.(*ast.Ident); ok && id.Name == "isClosed" {
							okRet := false
							if len(x.Body.List) == 1 {
								if r, ok := x.Body.List[0].(*ast.ReturnStmt); ok && len(r.Results) > 0 {
									okRet = types.ExprString(r.Results[len(r.Results)-1]) == "segment.ErrClosed"
								}
							}
							polls = append(polls, fmt.Sprintf("(%s, %d, %v)", leanStr(k), c.line(x.Pos()), okRet))
						}
					}
					walk(x.Body.List, nil)
					if eb, ok := x.Else.(*ast.BlockStmt); ok {
						walk(eb.List, nil)
					} else if ei, ok := x.Else.(*ast.IfStmt); ok {
						walk([]ast.Stmt{ei}, nil)
					}
				case *ast.ForStmt:
					walk(x.Body.List, x.Cond)
				case *ast.RangeStmt:
					walk(x.Body.List, nil)
				case *ast.BlockStmt:
					walk(x.List, loopCond)
				case *ast.SwitchStmt:
					for _, cc := range x.Body.List {
						walk(cc.(*ast.CaseClause).Body, nil)
					}
				case *ast.TypeSwitchStmt:
					for _, cc := range x.Body.List {
						walk(cc.(*ast.CaseClause).Body, nil)
					}
				}
			}
		}
		walk(fd.Body.List, nil)
		// closures
		ast.Inspect(fd.Body, func(n ast.Node) bool {
			if fl, ok := n.(*ast.FuncLit); ok {
				walk(fl.Body.List, nil)
			}
			return true
		})
		// Flush calls: is the result returned?
		ast.Inspect(fd.Body, func(n ast.Node) bool {
			call, ok := n.(*ast.CallExpr)
			if !ok {
				return true
			}
			if sel, ok := call.Fun.(*ast.SelectorExpr); ok && sel.Sel.Name == "Flush" {
				if tp := c.info.TypeOf(sel.X); tp != nil && strings.Contains(tp.String(), "bufio.Writer") {
					flushes = append(flushes, fmt.Sprintf("(%s, %d)", leanStr(k), c.line(call.Pos())))
				}
			}
			return true
		})
	}
	sort.Strings(dropped)
	sort.Strings(unchecked)
	fmt.Fprintf(&sb, "/-- calls whose error result is discarded: (function, callee) -/\ndef droppedErrors : List (String × String) := [%s]\n\n", strings.Join(dropped, ", "))
	fmt.Fprintf(&sb, "/-- calls whose error result is bound but not examined before being overwritten or the block ends -/\ndef uncheckedErrors : List (String × String) := [%s]\n\n", strings.Join(unchecked, ", "))
	fmt.Fprintf(&sb, "/-- cancellation polls: (function, line, returns segment.ErrClosed) -/\ndef closePolls : List (String × Nat × Bool) := [%s]\n\n", strings.Join(polls, ", "))
	fmt.Fprintf(&sb, "/-- bufio Flush calls (their result is covered by dropped/unchecked above) -/\ndef flushCalls : List (String × Nat) := [%s]\n\n", strings.Join(flushes, ", "))
	sb.WriteString("end Ice.Gen.WriteSites\n")
	c.write("WriteSites.lean", sb.String())
}

// ---------- Pool reset plan ----------

func (c *ctx) genPoolReset() {
	var sb strings.Builder
	sb.WriteString("namespace Ice.Gen.PoolReset\n\n")
	var fields []string
	if obj := c.pkg.Types.Scope().Lookup("interim"); obj != nil {
		if st, ok := obj.Type().Underlying().(*types.Struct); ok {
			for i := 0; i < st.NumFields(); i++ {
				fields = append(fields, leanStr(st.Field(i).Name()))
			}
		}
	} else {
		c.failf("type interim not found")
	}
	fmt.Fprintf(&sb, "def interimFields : List String := [%s]\n\n", strings.Join(fields, ", "))
	plan := map[string][]string{}
	var order []string
	add := func(f, cls string) {
		if _, ok := plan[f]; !ok {
			order = append(order, f)
		}
		plan[f] = append(plan[f], cls)
	}
	fieldOf := func(e ast.Expr) string { // s.X, s.X[i] -> X
		switch x := e.(type) {
		case *ast.SelectorExpr:
			if id, ok := x.X.(*ast.Ident); ok && id.Name == "s" {
				return x.Sel.Name
			}
		case *ast.IndexExpr:
			if sel, ok := x.X.(*ast.SelectorExpr); ok {
				if id, ok := sel.X.(*ast.Ident); ok && id.Name == "s" {
					return sel.Sel.Name
				}
			}
		}
		return ""
	}
	if fd := c.funcs["interim.reset"]; fd != nil {
		for _, s := range fd.Body.List {
			switch x := s.(type) {
			case *ast.AssignStmt:
				if len(x.Lhs) == 1 && len(x.Rhs) == 1 {
					f := fieldOf(x.Lhs[0])
					if f == "" {
						continue
					}
					rhs := types.ExprString(x.Rhs[0])
					switch {
					case rhs == "nil":
						add(f, "nil")
					case rhs == "0":
						add(f, "zero")
					case rhs == "s."+f+"[:0]":
						add(f, "trunc")
					default:
						add(f, "other:"+rhs)
					}
				}
			case *ast.RangeStmt:
				f := fieldOf(x.X)
				if f == "" {
					continue
				}
				cls := "loop:?"
				if len(x.Body.List) == 1 {
					switch b := x.Body.List[0].(type) {
					case *ast.AssignStmt:
						rhs := types.ExprString(b.Rhs[0])
						lhs := types.ExprString(b.Lhs[0])
						switch {
						case strings.HasSuffix(rhs, "[:0]"):
							cls = "trunc-elems"
						case rhs == "nil" || rhs == "false" || rhs == "0" || strings.HasSuffix(rhs, "{}"):
							cls = "zero-elems"
						default:
							cls = "loop:" + lhs + "=" + rhs
						}
					case *ast.ExprStmt:
						if call, ok := b.X.(*ast.CallExpr); ok {
							if sel, ok := call.Fun.(*ast.SelectorExpr); ok {
								cls = "call-elems:" + sel.Sel.Name
							}
						}
					}
				}
				add(f, cls)
			case *ast.ExprStmt:
				if call, ok := x.X.(*ast.CallExpr); ok {
					if sel, ok := call.Fun.(*ast.SelectorExpr); ok {
						if f := fieldOf(sel.X); f != "" {
							add(f, "call:"+sel.Sel.Name)
						}
					}
				}
			case *ast.IfStmt:
				ast.Inspect(x, func(n ast.Node) bool {
					if call, ok := n.(*ast.CallExpr); ok {
						if sel, ok := call.Fun.(*ast.SelectorExpr); ok {
							if f := fieldOf(sel.X); f != "" {
								add(f, "call:"+sel.Sel.Name)
							}
						}
					}
					return true
				})
			}
		}
	} else {
		c.failf("interim.reset not found")
	}
	var ps []string
	for _, f := range order {
		var cl []string
		for _, x := range plan[f] {
			cl = append(cl, leanStr(x))
		}
		ps = append(ps, fmt.Sprintf("(%s, [%s])", leanStr(f), strings.Join(cl, ", ")))
	}
	fmt.Fprintf(&sb, "/-- what reset() does to each field, in source order -/\ndef resetPlan : List (String × List String) := [%s]\n\n", strings.Join(ps, ",\n  "))
	// fields (re)assigned at the start of convert()/newWithChunkMode before use
	var remade []string
	for _, fn := range []string{"interim.convert", "newWithChunkMode"} {
		if fd := c.funcs[fn]; fd != nil {
			for _, s := range fd.Body.List {
				if as, ok := s.(*ast.AssignStmt); ok && len(as.Lhs) == 1 {
					if f := fieldOf(as.Lhs[0]); f != "" {
						remade = append(remade, leanStr(f))
					}
				}
			}
		}
	}
	fmt.Fprintf(&sb, "/-- fields unconditionally assigned at the top level of newWithChunkMode / convert -/\ndef remade : List String := [%s]\n\n", strings.Join(remade, ", "))
	sb.WriteString("end Ice.Gen.PoolReset\n")
	c.write("PoolReset.lean", sb.String())
}
