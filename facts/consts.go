package main

import (
	"fmt"
	"go/ast"
	"go/constant"
	"go/token"
	"go/types"
	"sort"
	"strconv"
	"strings"
)

// genConsts: every integer constant of the package (via the type checker's constant folding)
// and byte-valued package variables with literal initialisers.
func (c *ctx) genConsts() {
	var sb strings.Builder
	sb.WriteString("namespace Ice.Gen.Consts\n\n")
	scope := c.pkg.Types.Scope()
	names := scope.Names()
	sort.Strings(names)
	for _, n := range names {
		obj := scope.Lookup(n)
		if strings.HasPrefix(n, "Verif") {
			continue
		}
		switch o := obj.(type) {
		case *types.Const:
			v := o.Val()
			if v.Kind() != constant.Int {
				continue
			}
			s := v.ExactString()
			if strings.HasPrefix(s, "-") {
				continue
			}
			fmt.Fprintf(&sb, "def %s : Nat := %s\n", leanIdent(n), s)
		}
	}
	// var X byte = literal
	for _, f := range c.pkg.Syntax {
		for _, d := range f.Decls {
			gd, ok := d.(*ast.GenDecl)
			if !ok || gd.Tok != token.VAR {
				continue
			}
			for _, sp := range gd.Specs {
				vs := sp.(*ast.ValueSpec)
				for i, nm := range vs.Names {
					if i < len(vs.Values) {
						if bl, ok := vs.Values[i].(*ast.BasicLit); ok && bl.Kind == token.INT {
							if v, err := strconv.ParseUint(bl.Value, 0, 64); err == nil {
								fmt.Fprintf(&sb, "def %s : Nat := %d\n", leanIdent(nm.Name), v)
							}
						}
					}
				}
			}
		}
	}
	sb.WriteString("\nend Ice.Gen.Consts\n")
	c.write("Consts.lean", sb.String())
}

var leanKeywords = map[string]bool{"Type": true, "end": true, "at": true, "from": true, "in": true, "fun": true, "then": true, "else": true, "do": true, "open": true, "local": true}

func leanIdent(n string) string {
	if leanKeywords[n] {
		return n + "'"
	}
	return n
}
