package main

import (
	"fmt"
	"go/ast"
	"go/types"
	"strings"
)

// genEvents: for the functions that fill a reader-side cache from storage, the ordered list of
// events that matter for "a failed load leaves no half-valid cache" (C19, C13):
//
//	F:<callee>   a call whose error result is bound (it can fail)
//	A:<path>     an assignment to a field reachable from the receiver (at most two names deep)
//	M:<path>     a method call on a field of the receiver (it may change that field)
//	R:nil / R:err   a return statement (whether the error result is the literal nil)
//	{ }          a conditional or loop body (if / else / for / switch alike; empty ones dropped)
//
// Local variables, arithmetic and comments do not appear, so renaming or hoisting locals leaves
// the list unchanged; moving a cache key assignment in front of a fallible call does not.
func (c *ctx) genEvents() {
	fns := []string{"chunkedIntDecoder.loadChunk", "PostingsIterator.loadChunk", "docValueReader.loadDvChunk",
		"docValueReader.visitDocValues", "Segment.getDocStoredOffsets", "PostingsList.read"}
	var items []string
	for _, k := range fns {
		fd := c.funcs[k]
		if fd == nil {
			// only the bridges that mention this function break, not the whole file
			items = append(items, fmt.Sprintf("(%s, [%s])", leanStr(k), leanStr("<function not found>")))
			continue
		}
		recv := ""
		if fd.Recv != nil && len(fd.Recv.List) == 1 && len(fd.Recv.List[0].Names) == 1 {
			recv = fd.Recv.List[0].Names[0].Name
		}
		var ev []string
		var path func(e ast.Expr) (string, bool)
		path = func(e ast.Expr) (string, bool) {
			switch x := e.(type) {
			case *ast.Ident:
				if x.Name == recv && recv != "" {
					return "", true
				}
				return "", false
			case *ast.SelectorExpr:
				p, ok := path(x.X)
				if !ok {
					return "", false
				}
				if p == "" {
					return x.Sel.Name, true
				}
				if strings.Count(p, ".") >= 1 {
					return p, true
				}
				return p + "." + x.Sel.Name, true
			case *ast.IndexExpr:
				return path(x.X)
			case *ast.SliceExpr:
				return path(x.X)
			case *ast.StarExpr:
				return path(x.X)
			case *ast.ParenExpr:
				return path(x.X)
			}
			return "", false
		}
		returnsErr := func(call *ast.CallExpr) bool {
			t := c.info.TypeOf(call)
			isErr := func(t types.Type) bool { return t != nil && t.String() == "error" }
			if tup, ok := t.(*types.Tuple); ok {
				return tup.Len() > 0 && isErr(tup.At(tup.Len()-1).Type())
			}
			return isErr(t)
		}
		calleeName := func(call *ast.CallExpr) string {
			switch f := call.Fun.(type) {
			case *ast.Ident:
				return f.Name
			case *ast.SelectorExpr:
				return f.Sel.Name
			}
			return "?"
		}
		var walkStmt func(s ast.Stmt)
		walkBlock := func(b *ast.BlockStmt) {
			if b == nil {
				return
			}
			for _, s := range b.List {
				walkStmt(s)
			}
		}
		exprCalls := func(e ast.Expr) {
			ast.Inspect(e, func(n ast.Node) bool {
				if _, ok := n.(*ast.FuncLit); ok {
					return false
				}
				if call, ok := n.(*ast.CallExpr); ok {
					if returnsErr(call) {
						ev = append(ev, "F:"+calleeName(call))
					} else if sel, ok := call.Fun.(*ast.SelectorExpr); ok {
						if p, ok := path(sel.X); ok && p != "" {
							ev = append(ev, "M:"+p+"."+sel.Sel.Name)
						}
					}
				}
				return true
			})
		}
		walkStmt = func(s ast.Stmt) {
			switch x := s.(type) {
			case *ast.AssignStmt:
				for _, r := range x.Rhs {
					exprCalls(r)
				}
				for _, l := range x.Lhs {
					if p, ok := path(l); ok && p != "" {
						ev = append(ev, "A:"+p)
					}
				}
			case *ast.ExprStmt:
				exprCalls(x.X)
			case *ast.IncDecStmt:
				if p, ok := path(x.X); ok && p != "" {
					ev = append(ev, "A:"+p)
				}
			case *ast.DeclStmt:
				ast.Inspect(x, func(n ast.Node) bool {
					if e, ok := n.(ast.Expr); ok {
						exprCalls(e)
						return false
					}
					return true
				})
			case *ast.ReturnStmt:
				for _, r := range x.Results {
					exprCalls(r)
				}
				kind := "R:err"
				if n := len(x.Results); n > 0 {
					if id, ok := x.Results[n-1].(*ast.Ident); ok && id.Name == "nil" {
						kind = "R:nil"
					}
				} else {
					kind = "R:"
				}
				ev = append(ev, kind)
			case *ast.IfStmt:
				if x.Init != nil {
					walkStmt(x.Init)
				}
				exprCalls(x.Cond)
				ev = append(ev, "{")
				walkBlock(x.Body)
				ev = append(ev, "}")
				if x.Else != nil {
					ev = append(ev, "{")
					switch e := x.Else.(type) {
					case *ast.BlockStmt:
						walkBlock(e)
					default:
						walkStmt(e)
					}
					ev = append(ev, "}")
				}
			case *ast.ForStmt:
				if x.Init != nil {
					walkStmt(x.Init)
				}
				ev = append(ev, "{")
				walkBlock(x.Body)
				if x.Post != nil {
					walkStmt(x.Post)
				}
				ev = append(ev, "}")
			case *ast.RangeStmt:
				ev = append(ev, "{")
				walkBlock(x.Body)
				ev = append(ev, "}")
			case *ast.BlockStmt:
				walkBlock(x)
			case *ast.SwitchStmt:
				ev = append(ev, "{")
				walkBlock(x.Body)
				ev = append(ev, "}")
			case *ast.CaseClause:
				for _, s := range x.Body {
					walkStmt(s)
				}
			case *ast.DeferStmt:
				ev = append(ev, "defer")
				exprCalls(x.Call)
			}
		}
		walkBlock(fd.Body)
		// blocks without events are dropped (so `if c {} else {X}` and `if !c {X}` read the same)
		for changed := true; changed; {
			changed = false
			for i := 0; i+1 < len(ev); i++ {
				if ev[i] == "{" && ev[i+1] == "}" {
					ev = append(ev[:i], ev[i+2:]...)
					changed = true
					break
				}
			}
		}
		var q []string
		for _, e := range ev {
			q = append(q, leanStr(e))
		}
		items = append(items, fmt.Sprintf("(%s, [%s])", leanStr(k), strings.Join(q, ", ")))
	}
	var sb strings.Builder
	sb.WriteString("namespace Ice.Gen.Events\n\n")
	fmt.Fprintf(&sb, "/-- cache-relevant events of the storage-reading loaders, in source order -/\ndef events : List (String × List String) := [%s]\n\n", strings.Join(items, ",\n  "))
	sb.WriteString("end Ice.Gen.Events\n")
	c.write("Events.lean", sb.String())
}
