package main

func (c *ctx) genShared()     {}
func (c *ctx) genMutations()  {}
