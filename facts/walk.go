package main

import (
	"go/ast"
	"go/types"
)

// lockWalk walks a function body keeping an abstract state of the segment mutex
// (`X.m.Lock()` / `X.m.Unlock()` / `defer X.m.Unlock()`), calling visit for every statement
// and expression statement with the state at that point.  Branches are walked with copies of the
// state; when the arms of a branch that both fall through disagree, `ambiguous` is reported.
type lockState struct {
	locked   bool
	deferred bool // an unlock is deferred: every exit releases
}

type lockWalker struct {
	c         *ctx
	visit     func(n ast.Node, st lockState)
	onReturn  func(r *ast.ReturnStmt, st lockState)
	ambiguous []int
}

func isMutexCall(c *ctx, call *ast.CallExpr, name string) bool {
	sel, ok := call.Fun.(*ast.SelectorExpr)
	if !ok || sel.Sel.Name != name {
		return false
	}
	tp := c.info.TypeOf(sel.X)
	if tp == nil {
		return false
	}
	s := tp.String()
	return s == "sync.Mutex" || s == "*sync.Mutex" || s == "sync.RWMutex" || s == "*sync.RWMutex"
}

// terminates: does the statement list always leave the function (last statement is a return/panic)?
func terminates(list []ast.Stmt) bool {
	if len(list) == 0 {
		return false
	}
	switch x := list[len(list)-1].(type) {
	case *ast.ReturnStmt:
		return true
	case *ast.ExprStmt:
		if call, ok := x.X.(*ast.CallExpr); ok {
			if id, ok := call.Fun.(*ast.Ident); ok && id.Name == "panic" {
				return true
			}
		}
	case *ast.IfStmt:
		if x.Else == nil {
			return false
		}
		eb, ok := x.Else.(*ast.BlockStmt)
		if !ok {
			return false
		}
		return terminates(x.Body.List) && terminates(eb.List)
	case *ast.BlockStmt:
		return terminates(x.List)
	}
	return false
}

func (w *lockWalker) block(list []ast.Stmt, st lockState) lockState {
	for _, s := range list {
		st = w.stmt(s, st)
	}
	return st
}

func (w *lockWalker) exprCalls(e ast.Node, st lockState) lockState {
	ast.Inspect(e, func(n ast.Node) bool {
		if _, ok := n.(*ast.FuncLit); ok {
			return false
		}
		if call, ok := n.(*ast.CallExpr); ok {
			if isMutexCall(w.c, call, "Lock") {
				st.locked = true
			} else if isMutexCall(w.c, call, "Unlock") {
				st.locked = false
			}
		}
		return true
	})
	return st
}

func (w *lockWalker) stmt(s ast.Stmt, st lockState) lockState {
	if w.visit != nil {
		w.visit(s, st)
	}
	switch x := s.(type) {
	case *ast.ExprStmt:
		return w.exprCalls(x.X, st)
	case *ast.AssignStmt:
		for _, r := range x.Rhs {
			st = w.exprCalls(r, st)
		}
		return st
	case *ast.DeferStmt:
		if isMutexCall(w.c, x.Call, "Unlock") {
			st.deferred = true
		}
		return st
	case *ast.ReturnStmt:
		for _, r := range x.Results {
			st = w.exprCalls(r, st)
		}
		if w.onReturn != nil {
			w.onReturn(x, st)
		}
		return st
	case *ast.BlockStmt:
		return w.block(x.List, st)
	case *ast.IfStmt:
		if x.Init != nil {
			st = w.stmt(x.Init, st)
		}
		st = w.exprCalls(x.Cond, st)
		a := w.block(x.Body.List, st)
		aT := terminates(x.Body.List)
		b := st
		bT := false
		if x.Else != nil {
			switch e := x.Else.(type) {
			case *ast.BlockStmt:
				b = w.block(e.List, st)
				bT = terminates(e.List)
			default:
				b = w.stmt(e, st)
			}
		}
		switch {
		case aT && bT:
			return st
		case aT:
			return b
		case bT:
			return a
		}
		if a.locked != b.locked {
			w.ambiguous = append(w.ambiguous, w.c.line(x.Pos()))
		}
		return a
	case *ast.ForStmt:
		if x.Init != nil {
			st = w.stmt(x.Init, st)
		}
		after := w.block(x.Body.List, st)
		if after.locked != st.locked {
			w.ambiguous = append(w.ambiguous, w.c.line(x.Pos()))
		}
		return st
	case *ast.RangeStmt:
		after := w.block(x.Body.List, st)
		if after.locked != st.locked {
			w.ambiguous = append(w.ambiguous, w.c.line(x.Pos()))
		}
		return st
	case *ast.SwitchStmt:
		for _, cc := range x.Body.List {
			w.block(cc.(*ast.CaseClause).Body, st)
		}
		return st
	case *ast.TypeSwitchStmt:
		for _, cc := range x.Body.List {
			w.block(cc.(*ast.CaseClause).Body, st)
		}
		return st
	case *ast.SelectStmt:
		for _, cc := range x.Body.List {
			w.block(cc.(*ast.CommClause).Body, st)
		}
		return st
	case *ast.DeclStmt, *ast.IncDecStmt, *ast.BranchStmt, *ast.EmptyStmt, *ast.GoStmt, *ast.SendStmt, *ast.LabeledStmt:
		return st
	}
	return st
}

// isFuncTypedCall: a call whose callee is a value of function type (a callback), not a declared
// function or method.
func isFuncTypedCall(c *ctx, call *ast.CallExpr) bool {
	switch f := call.Fun.(type) {
	case *ast.Ident:
		if obj := c.info.Uses[f]; obj != nil {
			if v, ok := obj.(*types.Var); ok {
				_, isSig := v.Type().Underlying().(*types.Signature)
				return isSig
			}
		}
	case *ast.SelectorExpr:
		if sel := c.info.Selections[f]; sel != nil && sel.Kind() == types.FieldVal {
			_, isSig := sel.Type().Underlying().(*types.Signature)
			return isSig
		}
	}
	return false
}
