package main

import (
	"fmt"
	"go/ast"
	"go/types"
	"strings"
)

// genLayout: for the functions that lay out or walk the container, the ordered list of the
// functions / methods they call (by name, source order).  The bridges pin the subsequence of
// section writers and readers, so that a re-ordering or an omitted section is noticed.
func (c *ctx) genLayout() {
	var sb strings.Builder
	sb.WriteString("namespace Ice.Gen.Layout\n\n")
	fns := []string{"interim.convert", "mergeToWriter", "mergeSegmentBasesWriter", "newWithChunkMode",
		"persistMergedRest", "persistMergedRestField", "writePostings", "persistFields", "Segment.WriteTo", "load",
		"interim.writeDictsField", "interim.writeDictsTermField", "finishTerm", "mergeStoredAndRemap",
		// the codec set-up: here the calls inside function literals (sync.Once bodies) count too,
		// since that is where the encoder / decoder options are chosen
		"ZSTDCompress", "ZSTDDecompress"}
	intoLits := map[string]bool{"ZSTDCompress": true, "ZSTDDecompress": true}
	var items []string
	for _, k := range fns {
		fd := c.funcs[k]
		if fd == nil {
			// only the bridges that mention this function break, not the whole file
			items = append(items, fmt.Sprintf("(%s, [%s])", leanStr(k), leanStr("<function not found>")))
			continue
		}
		var calls []string
		ast.Inspect(fd.Body, func(n ast.Node) bool {
			if _, ok := n.(*ast.FuncLit); ok && !intoLits[k] {
				return false
			}
			call, ok := n.(*ast.CallExpr)
			if !ok {
				return true
			}
			name := ""
			switch f := call.Fun.(type) {
			case *ast.Ident:
				if tv, ok := c.info.Types[f]; ok && tv.IsType() {
					return true
				}
				name = f.Name
			case *ast.SelectorExpr:
				name = f.Sel.Name
				if id, ok := f.X.(*ast.Ident); ok {
					if _, isPkg := c.info.Uses[id].(*types.PkgName); isPkg {
						name = id.Name + "." + f.Sel.Name
					}
				}
			}
			if name != "" {
				calls = append(calls, leanStr(name))
			}
			return true
		})
		items = append(items, fmt.Sprintf("(%s, [%s])", leanStr(k), strings.Join(calls, ", ")))
	}
	fmt.Fprintf(&sb, "/-- calls made by the container-layout functions, in source order -/\ndef calls : List (String × List String) := [%s]\n\n", strings.Join(items, ",\n  "))
	sb.WriteString("end Ice.Gen.Layout\n")
	c.write("Layout.lean", sb.String())
}
